package main

import (
	"encoding/json"
	"fmt"
	"net/url"
	"os"
	"path/filepath"
	"regexp"
	"sort"
	"strings"

	"github.com/oapi-codegen/oapi-codegen/v2/pkg/codegen"
)

// C12 — strict server delivers decoded requests and writes the declared responses.

type c12Resp struct {
	Code    string   // "200", "default", "4XX"
	Media   []string // declared media types (empty = no content)
	Headers []string // declared header names
	Ref     string   // component response name ("" = inline)
}

type c12Op struct {
	ID     string
	Method string
	Path   string
	Bodies []string // request media types
	Resps  []c12Resp
}

var c12Ops = []c12Op{
	{ID: "PJson", Method: "post", Path: "/json", Bodies: []string{"application/json"},
		Resps: []c12Resp{{Code: "200", Media: []string{"application/json"}, Headers: []string{"X-Rate", "X-Trace-Id", "X-Score", "X-Ratio"}}, {Code: "201", Media: []string{"application/vnd.api+json"}},
			{Code: "404", Ref: "NotFound", Media: []string{"application/json"}}, {Code: "default", Media: []string{"application/json"}}, {Code: "4XX", Media: []string{"application/json"}, Headers: []string{"X-Why"}},
			// a wildcard that is still a JSON media type: the Content-Type comes with the response object
			{Code: "206", Media: []string{"application/*+json"}, Headers: []string{"X-W"}}}},
	{ID: "PForm", Method: "post", Path: "/form", Bodies: []string{"application/x-www-form-urlencoded"},
		Resps: []c12Resp{{Code: "200", Media: []string{"text/plain"}}, {Code: "204", Headers: []string{"X-Done"}}}},
	// a form body whose schema is written inline under the operation (the generator adds the form tags itself), with
	// member names that differ from their Go field names
	{ID: "PFormIn", Method: "post", Path: "/formin", Bodies: []string{"application/x-www-form-urlencoded"},
		Resps: []c12Resp{{Code: "204"}}},
	// a JSON body that is not required: when it is sent, it is delivered
	{ID: "POptJson", Method: "post", Path: "/optjson", Bodies: []string{"application/json"},
		Resps: []c12Resp{{Code: "204"}}},
	{ID: "PText", Method: "post", Path: "/text", Bodies: []string{"text/plain"},
		Resps: []c12Resp{{Code: "200", Media: []string{"application/octet-stream"}}, {Code: "202"}}},
	{ID: "PMulti", Method: "post", Path: "/multi", Bodies: []string{"application/json", "application/x-www-form-urlencoded", "text/plain"},
		Resps: []c12Resp{{Code: "200", Media: []string{"application/json", "text/plain"}}, {Code: "400", Media: []string{"application/problem+json"}}}},
	{ID: "PVendor", Method: "put", Path: "/vendor", Bodies: []string{"application/merge-patch+json"},
		Resps: []c12Resp{{Code: "200", Media: []string{"application/json"}}, {Code: "5XX", Media: []string{"application/json"}},
			{Code: "203", Media: []string{"application/*+json"}}, {Code: "409", Ref: "Wild", Media: []string{"application/*+json"}},
			// a JSON media type that carries a parameter is still JSON
			{Code: "202", Media: []string{"application/vnd.api+json; charset=utf-8"}}}},
	{ID: "PVendorP", Method: "put", Path: "/vendorp", Bodies: []string{"application/vnd.api+json; charset=utf-8"},
		Resps: []c12Resp{{Code: "200", Media: []string{"application/json"}}}},
	{ID: "PRaw", Method: "post", Path: "/raw", Bodies: []string{"application/octet-stream"},
		Resps: []c12Resp{{Code: "200", Media: []string{"image/*"}}, {Code: "default"}}},
	// multipart bodies: form-data goes through the framework's own reader, any other multipart/* through a
	// reader built from the boundary parameter; both must hand the parts to the handler
	{ID: "PMpForm", Method: "post", Path: "/mpform", Bodies: []string{"multipart/form-data"},
		Resps: []c12Resp{{Code: "200", Media: []string{"application/json"}}, {Code: "201", Media: []string{"multipart/form-data"}}}},
	{ID: "PMpRel", Method: "post", Path: "/mprel", Bodies: []string{"multipart/related"},
		Resps: []c12Resp{{Code: "200", Media: []string{"application/json"}}, {Code: "201", Media: []string{"multipart/related"}}}},
	{ID: "PGet", Method: "get", Path: "/p/{id}",
		Resps: []c12Resp{{Code: "200", Media: []string{"application/json"}}, {Code: "304"},
			// one component response without content under two status codes of the operation
			{Code: "401", Ref: "Denied"}, {Code: "403", Ref: "Denied"}}},
}

var c12Payload = J{"type": "object", "required": []interface{}{"a"}, "properties": J{"a": J{"type": "string"}, "n": J{"type": "integer"}}}

func c12Doc() J {
	paths := J{}
	for _, o := range c12Ops {
		op := J{"operationId": o.ID}
		if len(o.Bodies) > 0 {
			content := J{}
			for _, m := range o.Bodies {
				switch {
				case m == "text/plain":
					content[m] = J{"schema": J{"type": "string"}}
				case m == "application/octet-stream":
					content[m] = J{"schema": J{"type": "string", "format": "binary"}}
				case o.ID == "PFormIn":
					content[m] = J{"schema": J{"type": "object", "required": []interface{}{"a", "user_name"}, "properties": J{"a": J{"type": "string"}, "n": J{"type": "integer"},
						"user_name": J{"type": "string"}, "remember-me": J{"type": "boolean"}}}}
				default:
					content[m] = J{"schema": J{"$ref": "#/components/schemas/Payload"}}
				}
			}
			op["requestBody"] = J{"required": o.ID != "POptJson", "content": content}
		}
		if strings.Contains(o.Path, "{id}") {
			op["parameters"] = []interface{}{J{"name": "id", "in": "path", "required": true, "schema": J{"type": "integer"}},
				J{"name": "q", "in": "query", "schema": J{"type": "string"}}}
		}
		resps := J{}
		for _, r := range o.Resps {
			if r.Ref != "" {
				resps[r.Code] = J{"$ref": "#/components/responses/" + r.Ref}
				continue
			}
			resps[r.Code] = c12RespJ(r)
		}
		op["responses"] = resps
		paths[o.Path] = J{o.Method: op}
	}
	return J{"openapi": "3.0.3", "info": J{"title": "t", "version": "1"}, "paths": paths,
		"components": J{"schemas": J{"Payload": c12Payload}, "responses": J{"NotFound": c12RespJ(c12Resp{Media: []string{"application/json"}}), "Wild": c12RespJ(c12Resp{Media: []string{"application/*+json"}}),
			"Denied": c12RespJ(c12Resp{})}}}
}

func c12RespJ(r c12Resp) J {
	rj := J{"description": "d"}
	if len(r.Media) > 0 {
		content := J{}
		for _, m := range r.Media {
			switch {
			case m == "text/plain":
				content[m] = J{"schema": J{"type": "string"}}
			case strings.HasPrefix(m, "image/") || m == "application/octet-stream":
				content[m] = J{"schema": J{"type": "string", "format": "binary"}}
			default:
				content[m] = J{"schema": J{"$ref": "#/components/schemas/Payload"}}
			}
		}
		rj["content"] = content
	}
	if len(r.Headers) > 0 {
		hs := J{}
		for i, h := range r.Headers {
			switch {
			case i == 0:
				hs[h] = J{"schema": J{"type": "integer"}}
			case i == 2:
				// a number header (float32): written as the shortest text that reads back as that float32
				hs[h] = J{"schema": J{"type": "number"}}
			case i == 3:
				hs[h] = J{"schema": J{"type": "number", "format": "double"}}
			default:
				hs[h] = J{"schema": J{"type": "string"}}
			}
		}
		rj["headers"] = hs
	}
	return rj
}

var c12NormRE = regexp.MustCompile(`[^a-z0-9]`)

func c12Norm(s string) string {
	s = strings.ToLower(strings.ReplaceAll(s, "+", "plus"))
	return c12NormRE.ReplaceAllString(s, "")
}

// c12Match finds the declared response a generated response type stands for: <Op><Code><Tag>Response.
func c12Match(o c12Op, typeName string) (c12Resp, string, bool) {
	rest := strings.TrimSuffix(strings.TrimPrefix(typeName, o.ID), "Response")
	for _, r := range o.Resps {
		code := r.Code
		if !strings.HasPrefix(rest, code) && !strings.HasPrefix(rest, strings.ToUpper(code[:1])+code[1:]) {
			continue
		}
		tag := rest[len(code):]
		if len(r.Media) == 0 {
			if tag == "" {
				return r, "", true
			}
			continue
		}
		for _, m := range r.Media {
			want := ""
			switch {
			case m == "application/json":
				want = "json"
			case m == "text/plain":
				want = "text"
			case m == "application/x-www-form-urlencoded":
				want = "formdata"
			case strings.HasPrefix(m, "multipart/"):
				want = "multipart"
			default:
				want = c12Norm(m)
			}
			if c12Norm(tag) == want || c12Norm(tag) == c12Norm(strings.ReplaceAll(m, "*", "wildcard")) {
				return r, m, true
			}
		}
	}
	return c12Resp{}, "", false
}

type c12ReqRow struct {
	FW       int
	Op       string
	Class    int // 0 none 1 json 2 +json 3 form 4 text 5 raw
	Multi    bool
	Reached  bool
	ObjectOk bool
}

type c12RespRow struct {
	FW        int
	Type      string
	Code      int // 0 = default / range
	Supplied  int
	Status    int
	Class     int // 0 none 1 json 2 +json 3 text 4 binary 5 wildcard
	CTOk      bool
	NHeaders  int
	HeadersOk int
	BodyOk    bool
}

type c12Rows struct {
	Req  []c12ReqRow
	Resp []c12RespRow
}

// c12Multipart is a two-part body (a, n) with a fixed boundary.
func c12Multipart(a, n string) (param, body string) {
	const b = "XbOuNdArY"
	part := func(name, v string) string {
		return "--" + b + "\r\nContent-Disposition: form-data; name=\"" + name + "\"\r\n\r\n" + v + "\r\n"
	}
	return "; boundary=" + b, part("a", a) + part("n", n) + "--" + b + "--\r\n"
}

func c12Base(m string) string { return strings.TrimSpace(strings.SplitN(m, ";", 2)[0]) }

func c12ReqClass(m string) int {
	m = c12Base(m)
	switch {
	case m == "":
		return 0
	case m == "application/json":
		return 1
	case strings.HasSuffix(m, "+json"):
		return 2
	case m == "application/x-www-form-urlencoded":
		return 3
	case m == "text/plain":
		return 4
	case m == "multipart/form-data":
		return 6
	case strings.HasPrefix(m, "multipart/"):
		return 7
	}
	return 5
}

func c12RespClass(m string) int {
	m = c12Base(m)
	switch {
	case m == "":
		return 0
	case m == "application/json":
		return 1
	case strings.HasSuffix(m, "+json"):
		return 2
	case m == "text/plain":
		return 3
	case strings.Contains(m, "*"):
		return 5
	}
	return 4
}

func fwIndex(fw string) int {
	for i, f := range allFrameworks {
		if f == fw {
			return i
		}
	}
	return -1
}

func runC12(ctx *Ctx) error {
	// JSON request and response bodies: encoding/json vs Model/GoJson.lean, both directions
	if err := corrGoJSON(ctx, ctx.N(1500, 20000)); err != nil {
		return err
	}
	// which request-body definitions an operation gets (tag, default, names, support): GenerateBodyDefinitions vs Model/Bodies.lean
	if err := corrBodies(ctx, ctx.N(800, 10000)); err != nil {
		return err
	}
	// which response definitions are a component response: GenerateResponseDefinitions vs Model/RespDefs.lean
	if err := corrRespDefs(ctx, ctx.N(800, 10000)); err != nil {
		return err
	}
	// form bodies of flat objects: runtime.MarshalForm / BindForm vs Model/Form.lean
	if err := corrForm(ctx, ctx.N(600, 8000)); err != nil {
		return err
	}
	return c12Body(ctx, &c12Rows{})
}

func genC12(ctx *Ctx) error {
	if err := genMediaSwitch(ctx); err != nil {
		return err
	}
	rows := &c12Rows{}
	if err := c12Body(ctx, rows); err != nil {
		return err
	}
	var b strings.Builder
	b.WriteString("import OapiVerif.Model.Strict\n-- GENERATED by `harness gen-c12`: measured on the strict servers generated from /repo and compiled on this run (TAB by RUN). Do not edit.\nnamespace OapiVerif.Gen.C12\nopen OapiVerif.Strict\n\ndef reqRows : List ReqRow := [\n")
	for i, r := range rows.Req {
		sep := ","
		if i == len(rows.Req)-1 {
			sep = ""
		}
		fmt.Fprintf(&b, "  ⟨%d, %q, %d, %s, %s, %s⟩%s\n", r.FW, r.Op, r.Class, leanBool(r.Multi), leanBool(r.Reached), leanBool(r.ObjectOk), sep)
	}
	b.WriteString("]\n\ndef respRows : List RespRow := [\n")
	for i, r := range rows.Resp {
		sep := ","
		if i == len(rows.Resp)-1 {
			sep = ""
		}
		fmt.Fprintf(&b, "  ⟨%d, %q, %d, %d, %d, %d, %s, %d, %d, %s⟩%s\n", r.FW, r.Type, r.Code, r.Supplied, r.Status, r.Class, leanBool(r.CTOk), r.NHeaders, r.HeadersOk, leanBool(r.BodyOk), sep)
	}
	b.WriteString("]\nend OapiVerif.Gen.C12\n")
	return os.WriteFile(filepath.Join(ctx.GenDir, "C12.lean"), []byte(b.String()), 0o644)
}

func c12Body(ctx *Ctx, rows *c12Rows) error {
	ctx.Res.Rule = "CORR of encoding/json and of runtime.MarshalForm/BindForm with the Lean models; a document with every request media class (JSON, +json, form with a component and with an inline schema, text, raw, multipart; required and optional bodies; one and several per operation), path and query parameters, and every response shape (fixed code, range, default; JSON, vendor JSON, text, binary, wildcard; with and without headers; component response; no content) generated in strict mode for 7 frameworks and compiled; every request is sent and the request object received by the recording handler compared with what was sent; every declared response object is returned in turn with marker values and the status, Content-Type, headers and body on the wire compared with the declaration; handler error and foreign response type go to the error path; non-trivial = every (framework, operation, request or response) cell Session 9: CORR of GenerateBodyDefinitions (Model/Bodies.lean) and of the component-response choice of GenerateResponseDefinitions (Model/RespDefs.lean); TRANS Gen/MediaSwitch.lean; number response headers (float32, double) with an inexact marker value."
	kit, err := NewRunKit(ctx.Work)
	if err != nil {
		return err
	}
	defer kit.Close()
	doc := c12Doc()
	type pk struct {
		fw string
		p  *RunPkg
	}
	var pks []pk
	for _, fw := range allFrameworks {
		var cfg codegen.Configuration
		cfg.Generate.Models = true
		p := kit.Add(&RunPkg{Name: "c12_" + fw, FW: fw, Strict: true, Doc: doc, Cfg: cfg})
		pks = append(pks, pk{fw, p})
	}
	kit.Prepare()
	debug := os.Getenv("C12_DEBUG") != ""
	for _, k := range pks {
		if k.p.GenErr != nil {
			ctx.Res.Violate("generate-error:"+k.fw, "generation fails: "+firstLine(k.p.GenErr.Error()), J{"doc": doc, "fw": k.fw})
			continue
		}
		if k.p.BuildErr != "" {
			ctx.Res.Violate("compile:"+k.fw+":"+errorClass(k.p.BuildErr), "the strict server does not compile: "+firstLines(k.p.BuildErr, 3), J{"doc": doc, "fw": k.fw})
			continue
		}
		f, fset, err := parseGo(k.p.Src)
		if err != nil {
			return err
		}
		vts := visitTypes(f, fset)
		for _, o := range c12Ops {
			// ---- requests
			pathURL := "http://h" + strings.Replace(o.Path, "{id}", "42", 1)
			if strings.Contains(o.Path, "{id}") {
				pathURL += "?q=hello"
			}
			bodies := o.Bodies
			if len(bodies) == 0 {
				bodies = []string{""}
			}
			for _, m := range bodies {
				req := J{"method": strings.ToUpper(o.Method), "url": pathURL}
				sent := ""
				ct := m
				switch {
				case m == "":
				case m == "text/plain":
					sent = "plain text ü"
				case m == "application/octet-stream":
					sent = "\x00\x01raw"
				case m == "application/x-www-form-urlencoded":
					sent = url.Values{"a": {"x y"}, "n": {"5"}}.Encode()
					if o.ID == "PFormIn" {
						sent = url.Values{"a": {"x y"}, "n": {"5"}, "user_name": {"u 1"}, "remember-me": {"true"}}.Encode()
					}
				case strings.HasPrefix(m, "multipart/"):
					var prm string
					prm, sent = c12Multipart("x y", "5")
					ct = m + prm
				default:
					sent = `{"a":"x y","n":5}`
				}
				// a Content-Type with parameters must select the same body
				if m != "" && (m == "application/json" || m == "text/plain") {
					ct = m + "; charset=utf-8"
				}
				if m != "" {
					req["headers"] = [][2]string{{"Content-Type", ct}}
					req["body"] = sent
				}
				resp, err := k.p.Call(J{"do": "serve", "req": req, "opt": J{"sel": 0, "status": 200, "ctype": "image/png"}})
				if err != nil {
					return err
				}
				cell := J{"fw": k.fw, "op": o.ID, "request": m}
				ctx.Res.Eval(cell, true)
				ctx.Res.Count("request:" + k.fw)
				if debug {
					fmt.Fprintf(os.Stderr, "REQ %s %s %s => %s\n", k.fw, o.ID, m, Canon(resp))
				}
				replay := J{"doc": doc, "fw": k.fw, "op": o.ID, "request": req}
				sigc := fmt.Sprintf("%s:%s:%s", k.fw, o.ID, m)
				if resp["panic"] != nil || resp["regpanic"] != nil {
					ctx.Res.Violate("request-panic:"+sigc, fmt.Sprintf("serving panics: %v %v", resp["panic"], resp["regpanic"]), replay)
					continue
				}
				calls, _ := resp["calls"].([]interface{})
				row := c12ReqRow{FW: fwIndex(k.fw), Op: o.ID, Class: c12ReqClass(m), Multi: len(o.Bodies) > 1, Reached: len(calls) == 1}
				if len(calls) != 1 {
					rows.Req = append(rows.Req, row)
					ctx.Res.Violate("request-no-call:"+sigc, fmt.Sprintf("%d handler calls (status %v body %v)", len(calls), resp["status"], resp["body"]), replay)
					continue
				}
				args, _ := calls[0].(map[string]interface{})["args"].(map[string]interface{})
				ro, _ := args["request"].(map[string]interface{})
				bad := c12CheckRequest(o, m, sent, ro)
				row.ObjectOk = bad == ""
				rows.Req = append(rows.Req, row)
				if bad != "" {
					ctx.Res.Violate("request-object:"+sigc, bad+" (request object "+Canon(ro)+")", replay)
				}
			}
			// ---- responses
			types := vts["Visit"+o.ID+"Response"]
			if len(types) == 0 {
				ctx.Res.Violate("no-response-types:"+k.fw+":"+o.ID, "no response object types for the operation", J{"doc": doc, "fw": k.fw})
				continue
			}
			seen := map[string]bool{}
			notReached := false
			for sel, tn := range types {
				declared, media, ok := c12Match(o, tn)
				if !ok {
					ctx.Res.Violate("response-type-unmatched:"+k.fw+":"+tn, "response object type "+tn+" stands for no declared response", J{"doc": doc, "fw": k.fw})
					continue
				}
				seen[declared.Code+"|"+media] = true
				status := 0
				fixed := len(declared.Code) == 3 && declared.Code[1] != 'X'
				if fixed {
					fmt.Sscanf(declared.Code, "%d", &status)
				} else {
					status = map[string]int{"default": 418, "4XX": 422, "5XX": 503}[declared.Code]
				}
				wildcard := strings.Contains(media, "*")
				wantCT := media
				if wildcard {
					wantCT = "image/png" // what the handler supplies with the response object (opt.ctype)
				}
				req := J{"method": strings.ToUpper(o.Method), "url": "http://h" + strings.Replace(o.Path, "{id}", "42", 1)}
				if len(o.Bodies) > 0 {
					req["headers"] = [][2]string{{"Content-Type", "application/json"}}
					req["body"] = `{"a":"x","n":1}`
					if o.Bodies[0] != "application/json" && len(o.Bodies) == 1 {
						req["headers"] = [][2]string{{"Content-Type", o.Bodies[0]}}
						req["body"] = "a=x&n=1"
						if strings.HasSuffix(c12Base(o.Bodies[0]), "+json") {
							req["body"] = `{"a":"x","n":1}`
						}
						if strings.HasPrefix(o.Bodies[0], "multipart/") {
							prm, b := c12Multipart("x", "1")
							req["headers"] = [][2]string{{"Content-Type", o.Bodies[0] + prm}}
							req["body"] = b
						}
					}
				}
				resp, err := k.p.Call(J{"do": "serve", "req": req, "opt": J{"sel": sel, "status": status, "ctype": "image/png"}})
				if err != nil {
					return err
				}
				cell := J{"fw": k.fw, "op": o.ID, "response": tn}
				ctx.Res.Eval(cell, true)
				ctx.Res.Count("response:" + k.fw)
				if debug {
					fmt.Fprintf(os.Stderr, "RSP %s %s => %s\n", k.fw, tn, Canon(resp))
				}
				replay := J{"doc": doc, "fw": k.fw, "op": o.ID, "response_type": tn, "declared": declared, "media": media}
				shape := fmt.Sprintf("code=%s:media=%s:headers=%d:ref=%v", declared.Code, media, len(declared.Headers), declared.Ref != "")
				sigc := k.fw + ":" + shape
				if resp["panic"] != nil {
					ctx.Res.Violate("response-panic:"+sigc, fmt.Sprintf("writing the response panics: %v", resp["panic"]), replay)
					continue
				}
				if calls, _ := resp["calls"].([]interface{}); len(calls) == 0 {
					// the request never reached the handler (reported on the request side): nothing was returned
					ctx.Res.Violate("response-not-reached:"+k.fw+":"+o.ID, fmt.Sprintf("the request for %s is answered %v before the handler runs", o.ID, resp["status"]), replay)
					notReached = true
					break
				}
				gotStatus := 0
				if s, ok := resp["status"].(float64); ok {
					gotStatus = int(s)
				}
				rrow := c12RespRow{FW: fwIndex(k.fw), Type: tn, Supplied: status, Status: gotStatus, Class: c12RespClass(media), CTOk: true, NHeaders: len(declared.Headers), BodyOk: true}
				if fixed {
					rrow.Code = status
				}
				if gotStatus != status {
					ctx.Res.Violate("response-status:"+sigc, fmt.Sprintf("%s written with status %d, declared/supplied %d", tn, gotStatus, status), replay)
				}
				hdr := map[string][]string{}
				if hs, ok := resp["headers"].([]interface{}); ok {
					for _, h := range hs {
						kv, _ := h.([]interface{})
						if len(kv) == 2 {
							hdr[strings.ToLower(fmt.Sprint(kv[0]))] = append(hdr[strings.ToLower(fmt.Sprint(kv[0]))], fmt.Sprint(kv[1]))
						}
					}
				}
				gotCT := strings.Join(hdr["content-type"], ",")
				if media != "" {
					base := strings.TrimSpace(strings.SplitN(gotCT, ";", 2)[0])
					if base != c12Base(wantCT) {
						rrow.CTOk = false
						ctx.Res.Violate("response-content-type:"+sigc, fmt.Sprintf("%s written with Content-Type %q, declared/supplied %q", tn, gotCT, wantCT), replay)
					}
				}
				reply, _ := resp["reply"].(map[string]interface{})
				val, _ := reply["value"].(map[string]interface{})
				for _, h := range declared.Headers {
					got := hdr[strings.ToLower(h)]
					want := c12HeaderValue(val, h)
					if len(got) == 1 && (want == "" || got[0] == want) {
						rrow.HeadersOk++
					}
					if len(got) != 1 || (want != "" && got[0] != want) {
						ctx.Res.Violate("response-header:"+sigc, fmt.Sprintf("%s: header %s on the wire is %v, the handler supplied %q", tn, h, got, want), replay)
					}
				}
				body, _ := resp["body"].(string)
				if bad := c12CheckBody(media, reply, body); bad != "" {
					rrow.BodyOk = false
					ctx.Res.Violate("response-body:"+sigc, tn+": "+bad, replay)
				}
				rows.Resp = append(rows.Resp, rrow)
			}
			for _, r := range o.Resps {
				if notReached {
					break
				}
				ms := r.Media
				if len(ms) == 0 {
					ms = []string{""}
				}
				for _, m := range ms {
					if !seen[r.Code+"|"+m] {
						ctx.Res.Violate("response-undeclared-type:"+k.fw+":"+o.ID+":"+r.Code+":"+m, "no response object type for a declared response", J{"doc": doc, "fw": k.fw})
					}
				}
			}
			// ---- error paths
			for _, mode := range []string{"herr", "foreign", "herrresp"} {
				req := J{"method": strings.ToUpper(o.Method), "url": "http://h" + strings.Replace(o.Path, "{id}", "42", 1)}
				if len(o.Bodies) > 0 {
					req["headers"] = [][2]string{{"Content-Type", o.Bodies[0]}}
					req["body"] = `{"a":"x","n":1}`
					if o.Bodies[0] == "application/x-www-form-urlencoded" {
						req["body"] = "a=x&n=1"
					}
					if strings.HasPrefix(o.Bodies[0], "multipart/") {
						prm, b := c12Multipart("x", "1")
						req["headers"] = [][2]string{{"Content-Type", o.Bodies[0] + prm}}
						req["body"] = b
					}
				}
				opt := J{"sel": 0, "status": 200, "ctype": "image/png", "errh": true}
				opt[mode] = true
				if mode == "herrresp" {
					opt["herr"] = true // the handler returns a response object and an error: the error decides
				}
				if mode == "foreign" {
					opt["smw"] = 1
				}
				resp, err := k.p.Call(J{"do": "serve", "req": req, "opt": opt})
				if err != nil {
					return err
				}
				ctx.Res.Eval(J{"fw": k.fw, "op": o.ID, "error": mode}, true)
				ctx.Res.Count("error-path:" + mode)
				if debug {
					fmt.Fprintf(os.Stderr, "ERR %s %s %s => %s\n", k.fw, o.ID, mode, Canon(resp))
				}
				errs, _ := resp["errs"].([]interface{})
				st := 0
				if s, ok := resp["status"].(float64); ok {
					st = int(s)
				}
				if len(errs) == 0 && st < 400 {
					ctx.Res.Violate("error-path:"+k.fw+":"+mode, fmt.Sprintf("%s: a %s does not reach the error path (status %d, no error reported)", o.ID, map[string]string{"herr": "handler error", "foreign": "foreign response type", "herrresp": "handler error that comes with a response object"}[mode], st), J{"doc": doc, "fw": k.fw, "op": o.ID})
				}
			}
		}
	}
	return nil
}

func c12HeaderValue(val map[string]interface{}, h string) string {
	hs, _ := val["Headers"].(map[string]interface{})
	for k, v := range hs {
		if c12Norm(k) == c12Norm(h) {
			switch t := v.(type) {
			case float64:
				return fmt.Sprintf("%v", t)
			default:
				return fmt.Sprint(t)
			}
		}
	}
	return ""
}

func c12CheckBody(media string, reply map[string]interface{}, body string) string {
	val := reply["value"]
	if m, ok := val.(map[string]interface{}); ok {
		if b, has := m["Body"]; has {
			val = b
		}
	}
	switch {
	case media == "":
		if body != "" {
			return fmt.Sprintf("a response without content is written with body %q", clip(body, 80))
		}
	case media == "application/json" || strings.HasSuffix(c12Base(media), "+json"):
		want, _ := json.Marshal(c12JSONView(val))
		if !jsonEqual(body, string(want)) {
			return fmt.Sprintf("body %s is not the JSON encoding of the returned value %s", clip(body, 120), clip(string(want), 120))
		}
	case strings.HasPrefix(media, "multipart/"):
		if !strings.Contains(body, `name="field"`) || !strings.Contains(body, "value") {
			return fmt.Sprintf("the part written by the handler's function is not in the body %q", clip(body, 160))
		}
	case media == "text/plain":
		if s, ok := val.(string); ok && body != s {
			return fmt.Sprintf("text body %q, the handler returned %q", clip(body, 80), s)
		}
	default:
		if body == "" {
			return "the body written is empty"
		}
	}
	return ""
}

// c12JSONView maps the recorded Go view of a payload (field names) to its JSON member names for Payload.
func c12JSONView(v interface{}) interface{} {
	m, ok := v.(map[string]interface{})
	if !ok {
		return v
	}
	out := map[string]interface{}{}
	for k, x := range m {
		switch k {
		case "Headers", "StatusCode", "ContentType", "ContentLength":
			continue
		}
		out[strings.ToLower(k)] = c12JSONView(x)
	}
	return out
}

func c12CheckRequest(o c12Op, media, sent string, ro map[string]interface{}) string {
	if ro == nil {
		return "no request object recorded"
	}
	if strings.Contains(o.Path, "{id}") {
		if fmt.Sprint(ro["Id"]) != "42" {
			return fmt.Sprintf("path parameter id=42 arrives as %v", ro["Id"])
		}
		ps, _ := ro["Params"].(map[string]interface{})
		if fmt.Sprint(ps["Q"]) != "hello" {
			return fmt.Sprintf("query parameter q=hello arrives as %v", ps["Q"])
		}
	}
	if media == "" {
		return ""
	}
	field := "Body"
	if len(o.Bodies) > 1 {
		switch {
		case media == "application/json":
			field = "JSONBody"
		case media == "text/plain":
			field = "TextBody"
		case media == "application/x-www-form-urlencoded":
			field = "FormdataBody"
		}
		var set []string
		for k, v := range ro {
			if strings.HasSuffix(k, "Body") && v != nil {
				set = append(set, k)
			}
		}
		sort.Strings(set)
		if len(set) != 1 || set[0] != field {
			return fmt.Sprintf("Content-Type %s: body fields set %v, expected exactly [%s]", media, set, field)
		}
	}
	got := ro[field]
	switch {
	case media == "text/plain":
		if fmt.Sprint(got) != sent {
			return fmt.Sprintf("text body %q arrives as %v", sent, got)
		}
	case media == "application/octet-stream":
		if got == nil {
			return "raw body not delivered"
		}
	case strings.HasPrefix(media, "multipart/"):
		gm, _ := got.(map[string]interface{})
		// parts are compared as a set: fasthttp pre-parses a form-data body into a map and re-marshals it, so the order of
		// parts with different names is the framework's, not the generated code's
		if ps, ok := gm["$multipart"].([]interface{}); ok {
			sort.SliceStable(ps, func(i, j int) bool { return Canon(ps[i]) > Canon(ps[j]) })
		}
		if want := `[{"data":"x y","name":"a"},{"data":"5","name":"n"}]`; gm == nil || Canon(gm["$multipart"]) != want {
			return fmt.Sprintf("%s parts a=\"x y\", n=5 arrive as %s", media, Canon(got))
		}
	default:
		gm, _ := got.(map[string]interface{})
		if gm == nil || fmt.Sprint(gm["A"]) != "x y" || fmt.Sprint(gm["N"]) != "5" {
			return fmt.Sprintf("body {a:\"x y\", n:5} sent as %s arrives as %v", media, got)
		}
		if o.ID == "PFormIn" && (fmt.Sprint(gm["UserName"]) != "u 1" || fmt.Sprint(gm["RememberMe"]) != "true") {
			return fmt.Sprintf("body {a:\"x y\", n:5, user_name:\"u 1\", remember-me:true} sent as %s arrives as %v", media, got)
		}
	}
	return ""
}

func init() {
	register("c12", runC12)
	register("gen-c12", genC12)
}
