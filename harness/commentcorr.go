package main

import (
	"go/parser"
	"go/token"
	"strings"
	"unicode"
	"unicode/utf8"

	"github.com/oapi-codegen/oapi-codegen/v2/pkg/codegen"
)

// CORR: StringToGoComment / StringWithTypeNameToGoComment / DeprecationComment vs Model/Comment.lean on seeded
// descriptions (newlines of every kind and in every position, comment closers, code, blank and Unicode-blank text), and
// the statement on the implementation itself: placed above a declaration, the rendered comment parses and leaves the
// declaration as the only one of the file.
func corrComment(ctx *Ctx, n int) error {
	atoms := []string{"a", "Z", " ", "\t", "\n", "\r", "\r\n", "\n\n", "*/", "/*", "//", "}", "func f() {}", "`", "\"", " ", " ", " ", "\u0085", "é", "日本", "// ", "\n// ", "package x"}
	prefixes := []string{"", "", "T", "FieldName", "Pet_1"}
	for i := 0; i < n; i++ {
		r := ctx.Rng.Fork()
		var sb strings.Builder
		for k, m := 0, r.Intn(8); k < m; k++ {
			sb.WriteString(r.Pick(atoms))
		}
		in := sb.String()
		if i < len(atoms) {
			in = atoms[i]
		}
		if !utf8.ValidString(in) {
			continue
		}
		prefix := r.Pick(prefixes)
		got := codegen.StringWithTypeNameToGoComment(in, prefix)
		if prefix == "" && r.Bool() {
			got = codegen.StringToGoComment(in)
		}
		var m struct {
			Out       []int `json:"out"`
			Commented bool  `json:"commented"`
		}
		if err := ctx.Model(J{"fn": "comment", "in": cpsOrEmpty(in), "prefix": cpsOrEmpty(prefix)}, &m); err != nil {
			return err
		}
		ctx.Res.Eval(J{"comment": in, "prefix": prefix}, strings.ContainsAny(in, "\r\n"))
		ctx.Res.Count("corr:comment")
		if fromCps(m.Out) != got {
			ctx.Res.Disagree("CORR stringToGoCommentWithPrefix vs Comment.comment", J{"in": in, "prefix": prefix}, fromCps(m.Out), got)
			continue
		}
		// the statement, on the implementation: the comment above a declaration is a comment
		src := "package p\n\n" + got + "\ntype T int\n"
		f, err := parser.ParseFile(token.NewFileSet(), "x.go", src, parser.ParseComments)
		if err != nil || len(f.Decls) != 1 {
			ctx.Res.Violate("comment:escapes", "a description rendered by toGoComment does not stay inside its comment: "+clip(got, 200), J{"in": in, "prefix": prefix, "out": got})
		}
	}
	// the blank test is strings.TrimSpace: the model's white space against unicode.IsSpace on every code point
	{
		var spaces []int
		if err := ctx.Model(J{"fn": "commentSpaces"}, &spaces); err != nil {
			return err
		}
		model := map[rune]bool{}
		for _, c := range spaces {
			model[rune(c)] = true
		}
		for c := rune(0); c <= unicode.MaxRune; c++ {
			if unicode.IsSpace(c) != model[c] {
				ctx.Res.Disagree("CORR unicode.IsSpace vs Comment.isSpace (every code point)", J{"code-point": int(c)}, model[c], unicode.IsSpace(c))
				break
			}
		}
		ctx.Res.Evaluations++
		ctx.Res.Count("corr:comment:white-space-table-exhaustive")
	}
	// DeprecationComment goes through the same function with a fixed head
	for _, reason := range []string{"", "use v2", "line1\nline2", "a\r\nb\rc", "*/ type X int"} {
		got := codegen.DeprecationComment(reason)
		content := "Deprecated:"
		if reason != "" {
			content += " " + reason
		}
		var m struct {
			Out []int `json:"out"`
		}
		if err := ctx.Model(J{"fn": "comment", "in": cpsOrEmpty(content), "prefix": []int{}}, &m); err != nil {
			return err
		}
		ctx.Res.Evaluations++
		if fromCps(m.Out) != got {
			ctx.Res.Disagree("CORR DeprecationComment vs Comment.comment", J{"reason": reason}, fromCps(m.Out), got)
		}
	}
	return nil
}

func cpsOrEmpty(s string) []int {
	out := []int{}
	for _, r := range s {
		out = append(out, int(r))
	}
	return out
}
