package main

import (
	"bytes"
	"encoding/json"
	"fmt"
	"go/ast"
	"go/parser"
	"go/token"
	"os"
	"os/exec"
	"path/filepath"
	"reflect"
	"sort"
	"strconv"
	"strings"
	"sync"

	"github.com/oapi-codegen/oapi-codegen/v2/pkg/codegen"
	"github.com/oapi-codegen/oapi-codegen/v2/pkg/util"
	"gopkg.in/yaml.v2"
)

// C20 — the command-line tool is equivalent to the library for the same configuration.

// c20Build builds cmd/oapi-codegen from /repo's working tree into the scratch directory.
func c20Build(ctx *Ctx) (string, error) {
	bin := filepath.Join(ctx.Work, "oapi-codegen.bin")
	cmd := exec.Command("go", "build", "-o", bin, "./cmd/oapi-codegen")
	cmd.Dir = "/repo"
	cmd.Env = append(os.Environ(), "GOFLAGS=-mod=mod", "GOPROXY=off", "GOSUMDB=off", "GOTOOLCHAIN=local")
	if out, err := cmd.CombinedOutput(); err != nil {
		return "", fmt.Errorf("building cmd/oapi-codegen: %v: %s", err, out)
	}
	return bin, nil
}

type c20Run struct {
	Exit   int
	Stdout string
	Stderr string
}

// c20Exec runs the tool in dir.
func c20Exec(bin, dir string, args ...string) c20Run {
	var r c20Run
	for attempt := 0; attempt < 4; attempt++ {
		cmd := exec.Command(bin, args...)
		cmd.Dir = dir
		cmd.Env = append(os.Environ(), "GOFLAGS=-mod=mod", "GOPROXY=off", "GOSUMDB=off", "GOTOOLCHAIN=local")
		var so, se bytes.Buffer
		cmd.Stdout, cmd.Stderr = &so, &se
		err := cmd.Run()
		r = c20Run{Stdout: so.String(), Stderr: se.String()}
		if err == nil {
			return r
		}
		if ee, ok := err.(*exec.ExitError); ok && ee.ExitCode() >= 0 {
			r.Exit = ee.ExitCode()
			return r
		}
		// the process could not be started or was killed: not an answer of the tool, try again
		r.Exit = -1
		r.Stderr += "exec: " + err.Error()
	}
	return r
}

const c20Spec = `{"openapi":"3.0.0","info":{"title":"t","version":"1"},"paths":{"/a":{"get":{"operationId":"getA","responses":{"200":{"description":"ok"}}}}}}`

// c20SwitchNames: the string literals of the case clauses of generationTargets (go/ast).
func c20SwitchNames() ([]string, error) {
	fset := token.NewFileSet()
	f, err := parser.ParseFile(fset, "/repo/cmd/oapi-codegen/oapi-codegen.go", nil, 0)
	if err != nil {
		return nil, err
	}
	var names []string
	for _, d := range f.Decls {
		fd, ok := d.(*ast.FuncDecl)
		if !ok || fd.Name.Name != "generationTargets" {
			continue
		}
		ast.Inspect(fd, func(n ast.Node) bool {
			if cc, ok := n.(*ast.CaseClause); ok {
				for _, e := range cc.List {
					if bl, ok := e.(*ast.BasicLit); ok && bl.Kind == token.STRING {
						s, _ := strconv.Unquote(bl.Value)
						names = append(names, s)
					}
				}
			}
			return true
		})
	}
	if len(names) == 0 {
		return nil, fmt.Errorf("generationTargets switch not found in cmd/oapi-codegen")
	}
	sort.Strings(names)
	return names, nil
}

var c20FlagOrder = []struct{ key, lean string }{
	{"generate.iris-server", "iris"}, {"generate.chi-server", "chi"}, {"generate.fiber-server", "fiber"}, {"generate.echo-server", "echo"},
	{"generate.gin-server", "gin"}, {"generate.gorilla-server", "gorilla"}, {"generate.std-http-server", "stdhttp"}, {"generate.strict-server", "strict"},
	{"generate.client", "client"}, {"generate.models", "models"}, {"generate.embedded-spec", "spec"},
	{"output-options.skip-fmt", "skipFmt"}, {"output-options.skip-prune", "skipPrune"},
}

// c20Leaves: keys that are leaves although their value is a map or list.
var c20MapLeaves = map[string]bool{"output-options.user-templates": true, "import-mapping": true, "additional-imports": true}

// c20Flatten turns the YAML printed by -output-config into leaf path -> canonical JSON of the value.
func c20Flatten(y string) (map[string]string, error) {
	var m yaml.MapSlice
	if err := yaml.Unmarshal([]byte(y), &m); err != nil {
		return nil, err
	}
	out := map[string]string{}
	var walk func(prefix string, ms yaml.MapSlice)
	walk = func(prefix string, ms yaml.MapSlice) {
		for _, it := range ms {
			k := prefix + fmt.Sprint(it.Key)
			if sub, ok := it.Value.(yaml.MapSlice); ok && !c20MapLeaves[k] {
				walk(k+".", sub)
				continue
			}
			out[k] = c20Canon(it.Value)
		}
	}
	walk("", m)
	return out, nil
}

func c20Plain(v interface{}) interface{} {
	switch t := v.(type) {
	case yaml.MapSlice:
		m := map[string]interface{}{}
		for _, it := range t {
			m[fmt.Sprint(it.Key)] = c20Plain(it.Value)
		}
		return m
	case map[interface{}]interface{}:
		m := map[string]interface{}{}
		for k, x := range t {
			m[fmt.Sprint(k)] = c20Plain(x)
		}
		return m
	case []interface{}:
		l := make([]interface{}, len(t))
		for i, x := range t {
			l[i] = c20Plain(x)
		}
		return l
	case int:
		return float64(t)
	default:
		return t
	}
}

func c20Canon(v interface{}) string {
	b, _ := json.Marshal(c20Plain(v))
	s := string(b)
	if s == "null" || s == "[]" || s == "{}" || s == `""` || s == "false" || s == "0" {
		return "" // zero values print differently with and without omitempty
	}
	return s
}

func c20Diff(a, b map[string]string) []string {
	seen := map[string]bool{}
	var out []string
	for k, v := range a {
		if b[k] != v {
			seen[k] = true
		}
	}
	for k, v := range b {
		if a[k] != v {
			seen[k] = true
		}
	}
	for k := range seen {
		out = append(out, k)
	}
	sort.Strings(out)
	return out
}

// c20StructKeys: leaf yaml paths of the tool's configuration (codegen.Configuration inline + output).
func c20StructKeys() []string {
	var out []string
	var walk func(prefix string, t reflect.Type)
	walk = func(prefix string, t reflect.Type) {
		for i := 0; i < t.NumField(); i++ {
			f := t.Field(i)
			tag := strings.Split(f.Tag.Get("yaml"), ",")[0]
			if tag == "-" || tag == "" {
				continue
			}
			k := prefix + tag
			if f.Type.Kind() == reflect.Struct {
				walk(k+".", f.Type)
				continue
			}
			out = append(out, k)
		}
	}
	walk("", reflect.TypeOf(codegen.Configuration{}))
	out = append(out, "output")
	sort.Strings(out)
	return out
}

// c20SchemaKeys: leaf keys of configuration-schema.json with their JSON type.
func c20SchemaKeys() (map[string]string, error) {
	b, err := os.ReadFile("/repo/configuration-schema.json")
	if err != nil {
		return nil, err
	}
	var s map[string]interface{}
	if err := json.Unmarshal(b, &s); err != nil {
		return nil, err
	}
	out := map[string]string{}
	var walk func(prefix string, n map[string]interface{})
	walk = func(prefix string, n map[string]interface{}) {
		props, _ := n["properties"].(map[string]interface{})
		for k, v := range props {
			vm, _ := v.(map[string]interface{})
			if _, has := vm["properties"]; has && !c20MapLeaves[prefix+k] {
				walk(prefix+k+".", vm)
				continue
			}
			ty, _ := vm["type"].(string)
			out[prefix+k] = ty
		}
	}
	walk("", s)
	return out, nil
}

// a non-default value for a configuration key
func c20KeyValue(key string) interface{} {
	switch key {
	case "package":
		return "other"
	case "output":
		return "out.go"
	case "compatibility.circular-reference-limit":
		return 7
	case "output-options.user-templates":
		return map[string]interface{}{"client.tmpl": "// x"}
	case "import-mapping":
		return map[string]interface{}{"a.yaml": "example.com/a"}
	case "additional-imports":
		return []interface{}{map[string]interface{}{"alias": "x", "package": "example.com/x"}}
	case "output-options.response-type-suffix":
		return "Resp"
	case "output-options.client-type-name":
		return "Cl"
	case "output-options.name-normalizer":
		return "ToCamelCaseWithDigits"
	}
	if strings.HasSuffix(key, "-tags") || strings.HasSuffix(key, "-ids") || key == "output-options.exclude-schemas" || strings.HasSuffix(key, "-for-type") {
		return []interface{}{"a", "b"}
	}
	return true
}

// nest builds {"a":{"b":v}} from "a.b".
func c20Nest(m map[string]interface{}, key string, v interface{}) {
	parts := strings.Split(key, ".")
	cur := m
	for i, p := range parts {
		if i == len(parts)-1 {
			cur[p] = v
			break
		}
		nx, ok := cur[p].(map[string]interface{})
		if !ok {
			nx = map[string]interface{}{}
			cur[p] = nx
		}
		cur = nx
	}
}

func c20Yaml(m map[string]interface{}) string {
	b, _ := yaml.Marshal(m)
	return string(b)
}

type c20Env struct {
	bin string
	dir string
	mu  sync.Mutex
	n   int
}

// tmp makes a fresh directory with the specification in it.
func (e *c20Env) tmp() string {
	e.mu.Lock()
	e.n++
	d := filepath.Join(e.dir, fmt.Sprintf("c20-%d", e.n))
	e.mu.Unlock()
	_ = os.MkdirAll(d, 0o755)
	_ = os.WriteFile(filepath.Join(d, "spec.json"), []byte(c20Spec), 0o644)
	return d
}

// effective runs the tool with -output-config and returns the flattened effective configuration (nil = rejected).
func (e *c20Env) effective(files map[string]string, args ...string) (map[string]string, c20Run) {
	d := e.tmp()
	defer os.RemoveAll(d)
	for n, c := range files {
		_ = os.MkdirAll(filepath.Dir(filepath.Join(d, n)), 0o755)
		_ = os.WriteFile(filepath.Join(d, n), []byte(c), 0o644)
	}
	a := append(append([]string{}, args...), "-output-config", "spec.json")
	r := c20Exec(e.bin, d, a...)
	if r.Exit != 0 {
		return nil, r
	}
	m, err := c20Flatten(r.Stdout)
	if err != nil {
		return nil, c20Run{Exit: -1, Stderr: "unparsable -output-config: " + err.Error()}
	}
	return m, r
}

func c20LeanFlags(m map[string]string) string {
	if m == nil {
		return "none"
	}
	var on []string
	for _, f := range c20FlagOrder {
		if m[f.key] == "true" {
			on = append(on, "."+f.lean)
		}
	}
	return "some [" + strings.Join(on, ", ") + "]"
}

func leanStrList(xs []string) string {
	q := make([]string, len(xs))
	for i, x := range xs {
		q[i] = strconv.Quote(x)
	}
	return "[" + strings.Join(q, ", ") + "]"
}

func leanBool(b bool) string {
	if b {
		return "true"
	}
	return "false"
}

var c20Documented = []string{"types", "client", "chi-server", "server", "gin", "gorilla", "spec", "skip-fmt", "skip-prune", "fiber", "iris", "std-http",
	"strict-server", "models", "embedded-spec", "echo-server", "gin-server", "gorilla-server", "std-http-server", "fiber-server", "iris-server"}

func parallelDo(n int, f func(i int)) {
	var wg sync.WaitGroup
	sem := make(chan struct{}, 12)
	for i := 0; i < n; i++ {
		wg.Add(1)
		sem <- struct{}{}
		go func(i int) {
			defer wg.Done()
			defer func() { <-sem }()
			f(i)
		}(i)
	}
	wg.Wait()
}

type c20TransRow struct {
	Style, Name string
	Accepted    bool
	Changed     []string
	RoundTrip   bool
}

// c20Trans builds the translation rows (old-style keys, legacy flags).
func c20Trans(env *c20Env) []c20TransRow {
	var rows []c20TransRow
	tdir := map[string]string{"tpl/client.tmpl": "// x"}
	type val struct {
		yaml   interface{} // in an old-style file
		flag   string      // as a flag value
		expect string      // canonical JSON expected at the documented key
	}
	vals := map[string]val{
		"package": {"other", "other", `"other"`},
		"output":  {"out.go", "out.go", `"out.go"`},
		"o":       {nil, "out.go", `"out.go"`},
		// tags may hold blanks: only the blanks around an item are trimmed
		"include-tags":          {[]interface{}{"pet store", "b"}, " pet store , b", `["pet store","b"]`},
		"exclude-tags":          {[]interface{}{"a", "pet store"}, "a,pet store", `["a","pet store"]`},
		"include-operation-ids": {[]interface{}{"a", "b"}, "a,b", `["a","b"]`},
		"exclude-operation-ids": {[]interface{}{"a", "b"}, "a,b", `["a","b"]`},
		"exclude-schemas":       {[]interface{}{"a", "b"}, "a,b", `["a","b"]`},
		// the directory may be spelled in any way that names it
		"templates": {"./tpl", "tpl/", `{"client.tmpl":"// x"}`},
		// the second key holds a colon and a comma: on the command line it is quoted
		"import-mapping": {map[string]interface{}{"a.yaml": "example.com/a", "https://x.org/specs:v1,b.yaml": "example.com/b"},
			`a.yaml:example.com/a,"https://x.org/specs:v1,b.yaml":example.com/b`, `{"a.yaml":"example.com/a","https://x.org/specs:v1,b.yaml":"example.com/b"}`},
		"response-type-suffix": {"Resp", "Resp", `"Resp"`},
		"compatibility":        {map[string]interface{}{"old-aliasing": true}, "", `true`},
		"generate":             {[]interface{}{"types", "chi-server"}, "types,chi-server", `true`},
		"initialism-overrides": {nil, "", `true`},
	}
	docKey := map[string]string{"package": "package", "generate": "generate.chi-server", "output": "output", "o": "output", "include-tags": "output-options.include-tags",
		"exclude-tags": "output-options.exclude-tags", "include-operation-ids": "output-options.include-operation-ids", "exclude-operation-ids": "output-options.exclude-operation-ids",
		"templates": "output-options.user-templates", "import-mapping": "import-mapping", "exclude-schemas": "output-options.exclude-schemas",
		"response-type-suffix": "output-options.response-type-suffix", "compatibility": "compatibility.old-aliasing", "initialism-overrides": "output-options.initialism-overrides"}
	add := func(style, name string, base, with map[string]string, runWith c20Run) {
		r := c20TransRow{Style: style, Name: name, Accepted: base != nil && with != nil}
		if r.Accepted {
			r.Changed = c20Diff(base, with)
			r.RoundTrip = with[docKey[name]] == vals[name].expect
		}
		_ = runWith
		rows = append(rows, r)
	}
	oldKeys := []string{"package", "generate", "output", "include-tags", "exclude-tags", "include-operation-ids", "exclude-operation-ids", "templates", "import-mapping", "exclude-schemas", "response-type-suffix", "compatibility"}
	for _, k := range oldKeys {
		base := map[string]interface{}{"package": "p", "generate": []interface{}{"types"}}
		with := map[string]interface{}{"package": "p", "generate": []interface{}{"types"}}
		with[k] = vals[k].yaml
		fb := map[string]string{"cfg.yaml": c20Yaml(base)}
		fw := map[string]string{"cfg.yaml": c20Yaml(with)}
		for n, c := range tdir {
			fb[n], fw[n] = c, c
		}
		b, _ := env.effective(fb, "-config", "cfg.yaml")
		w, rw := env.effective(fw, "-config", "cfg.yaml")
		add("old-file", k, b, w, rw)
	}
	flags := []string{"package", "generate", "o", "include-tags", "exclude-tags", "include-operation-ids", "exclude-operation-ids", "templates", "import-mapping", "exclude-schemas", "response-type-suffix", "initialism-overrides"}
	flagArgs := func(k string, with bool) []string {
		switch k {
		case "package":
			if with {
				return []string{"-package", "other"}
			}
			return []string{"-package", "p"}
		case "generate":
			if with {
				return []string{"-package", "p", "-generate", "types,chi-server"}
			}
			return []string{"-package", "p", "-generate", "types"}
		case "initialism-overrides":
			if with {
				return []string{"-package", "p", "-generate", "types", "-initialism-overrides"}
			}
			return []string{"-package", "p", "-generate", "types"}
		}
		if with {
			return []string{"-package", "p", "-generate", "types", "-" + k, vals[k].flag}
		}
		return []string{"-package", "p", "-generate", "types"}
	}
	for _, k := range flags {
		// no configuration file
		b, _ := env.effective(tdir, flagArgs(k, false)...)
		w, rw := env.effective(tdir, flagArgs(k, true)...)
		add("flag-none", k, b, w, rw)
		// next to an old-style file that is silent about the key (a key only the old style knows marks the style)
		marker := "exclude-schemas"
		if k == "exclude-schemas" {
			marker = "include-tags"
		}
		oldFile := map[string]string{"cfg.yaml": c20Yaml(map[string]interface{}{marker: []interface{}{"zz"}})}
		for n, c := range tdir {
			oldFile[n] = c
		}
		b, _ = env.effective(oldFile, append([]string{"-config", "cfg.yaml"}, flagArgs(k, false)...)...)
		w, rw = env.effective(oldFile, append([]string{"-config", "cfg.yaml"}, flagArgs(k, true)...)...)
		add("flag-old", k, b, w, rw)
		// next to a new-style file: flags override
		newFile := map[string]string{"cfg.yaml": c20Yaml(map[string]interface{}{"package": "p", "generate": map[string]interface{}{"models": true}})}
		for n, c := range tdir {
			newFile[n] = c
		}
		var fa, fbase []string
		switch k {
		case "package":
			fbase, fa = nil, []string{"-package", "other"}
		case "generate":
			fbase, fa = []string{"-generate", "types"}, []string{"-generate", "types,chi-server"}
		case "initialism-overrides":
			fbase, fa = nil, []string{"-initialism-overrides"}
		default:
			fbase, fa = nil, []string{"-" + k, vals[k].flag}
		}
		b, _ = env.effective(newFile, append([]string{"-config", "cfg.yaml"}, fbase...)...)
		w, rw = env.effective(newFile, append([]string{"-config", "cfg.yaml"}, fa...)...)
		add("flag-new", k, b, w, rw)
	}
	return rows
}

type c20KeyRow struct {
	Key                string
	InSchema, InStruct bool
	Accepted           bool
	Changed            []string
	RoundTrip          bool
	Why                string `json:",omitempty"`
}

func c20Keys(env *c20Env) ([]c20KeyRow, error) {
	schema, err := c20SchemaKeys()
	if err != nil {
		return nil, err
	}
	sk := c20StructKeys()
	inStruct := map[string]bool{}
	all := map[string]bool{}
	for _, k := range sk {
		inStruct[k] = true
		all[k] = true
	}
	for k := range schema {
		all[k] = true
	}
	keys := SortedKeys(all)
	rows := make([]c20KeyRow, len(keys))
	parallelDo(len(keys), func(i int) {
		k := keys[i]
		_, inS := schema[k]
		row := c20KeyRow{Key: k, InSchema: inS, InStruct: inStruct[k]}
		base := map[string]interface{}{"package": "p", "generate": map[string]interface{}{"models": true}}
		if k == "generate.models" {
			base["generate"] = map[string]interface{}{"client": true}
		}
		with := map[string]interface{}{}
		for kk, v := range base {
			if mm, ok := v.(map[string]interface{}); ok {
				c := map[string]interface{}{}
				for a, b := range mm {
					c[a] = b
				}
				v = c
			}
			with[kk] = v
		}
		v := c20KeyValue(k)
		c20Nest(with, k, v)
		b, rb := env.effective(map[string]string{"cfg.yaml": c20Yaml(base)}, "-config", "cfg.yaml")
		w, rw := env.effective(map[string]string{"cfg.yaml": c20Yaml(with)}, "-config", "cfg.yaml")
		row.Accepted = b != nil && w != nil
		if !row.Accepted {
			row.Why = fmt.Sprintf("base: exit %d %s; with key: exit %d %s", rb.Exit, firstLine(rb.Stderr), rw.Exit, firstLine(rw.Stderr))
		}
		if row.Accepted {
			row.Changed = c20Diff(b, w)
			row.RoundTrip = w[k] == c20Canon(v)
		}
		rows[i] = row
	})
	return rows, nil
}

type c20TargetRow struct {
	Targets   []string
	Flag, Old string
}

func c20TargetLists(names []string) [][]string {
	all := map[string]bool{}
	for _, n := range names {
		all[n] = true
	}
	for _, n := range c20Documented {
		all[n] = true
	}
	ns := SortedKeys(all)
	var lists [][]string
	for _, n := range ns {
		lists = append(lists, []string{n})
	}
	for _, bad := range []string{"bogus", "Chi", "chi_server", "servers", "type"} {
		lists = append(lists, []string{bad}, []string{"client", bad}, []string{bad, "types"}, []string{"types", bad, "chi"})
	}
	for i, a := range ns {
		for j, b := range ns {
			if i < j || (i > j && (i+j)%7 == 0) {
				lists = append(lists, []string{a, b})
			}
		}
	}
	lists = append(lists, []string{"types", "client", "server", "spec"}, []string{"chi", "strict-server", "types", "spec", "skip-fmt", "skip-prune"},
		[]string{"types", "types"}, []string{"chi", "chi-server"}, []string{"gin", "client", "iris"}, []string{"skip-fmt", "skip-prune"})
	return lists
}

func c20Targets(env *c20Env, names []string) []c20TargetRow {
	lists := c20TargetLists(names)
	rows := make([]c20TargetRow, len(lists))
	parallelDo(len(lists), func(i int) {
		ts := lists[i]
		viaFlag, _ := env.effective(nil, "-package", "p", "-generate", strings.Join(ts, ","))
		var yl []interface{}
		for _, t := range ts {
			yl = append(yl, t)
		}
		viaOld, _ := env.effective(map[string]string{"cfg.yaml": c20Yaml(map[string]interface{}{"package": "p", "generate": yl})}, "-config", "cfg.yaml")
		rows[i] = c20TargetRow{Targets: ts, Flag: c20LeanFlags(viaFlag), Old: c20LeanFlags(viaOld)}
	})
	return rows
}

func genC20(ctx *Ctx) error {
	bin, err := c20Build(ctx)
	if err != nil {
		return err
	}
	env := &c20Env{bin: bin, dir: ctx.Work}
	names, err := c20SwitchNames()
	if err != nil {
		return err
	}
	var b strings.Builder
	b.WriteString("import OapiVerif.Model.Cli\n-- GENERATED by `harness gen-c20` from /repo/cmd/oapi-codegen (FACT: go/ast; TAB: the tool built from the working tree, run with -output-config). Do not edit.\nnamespace OapiVerif.Gen.C20\nopen OapiVerif.Cli\n\n")
	fmt.Fprintf(&b, "def switchNames : List String := %s\n\n", leanStrList(names))
	b.WriteString("def targetRows : List TargetRow := [\n")
	trs := c20Targets(env, names)
	for i, r := range trs {
		sep := ","
		if i == len(trs)-1 {
			sep = ""
		}
		fmt.Fprintf(&b, "  ⟨%s, %s, %s⟩%s\n", leanStrList(r.Targets), r.Flag, r.Old, sep)
	}
	b.WriteString("]\n\ndef keyRows : List KeyRow := [\n")
	krs, err := c20Keys(env)
	if err != nil {
		return err
	}
	for i, r := range krs {
		sep := ","
		if i == len(krs)-1 {
			sep = ""
		}
		fmt.Fprintf(&b, "  ⟨%q, %s, %s, %s, %s, %s⟩%s\n", r.Key, leanBool(r.InSchema), leanBool(r.InStruct), leanBool(r.Accepted), leanStrList(r.Changed), leanBool(r.RoundTrip), sep)
	}
	b.WriteString("]\n\ndef transRows : List TransRow := [\n")
	xrs := c20Trans(env)
	for i, r := range xrs {
		sep := ","
		if i == len(xrs)-1 {
			sep = ""
		}
		fmt.Fprintf(&b, "  ⟨%q, %q, %s, %s, %s⟩%s\n", r.Style, r.Name, leanBool(r.Accepted), leanStrList(r.Changed), leanBool(r.RoundTrip), sep)
	}
	b.WriteString("]\n\ndef detectRows : List DetectRow := [\n")
	drs := c20DetectRows(env)
	for i, r := range drs {
		sep := ","
		if i == len(drs)-1 {
			sep = ""
		}
		fmt.Fprintf(&b, "  ⟨%s, %d, %s, %s⟩%s\n", leanBool(r.Forced), r.File, leanBool(r.Deprecated), r.Observed, sep)
	}
	b.WriteString("]\nend OapiVerif.Gen.C20\n")
	return os.WriteFile(filepath.Join(ctx.GenDir, "C20.lean"), []byte(b.String()), 0o644)
}

// ---- which configuration style the tool settles on ----

type c20DetectRow struct {
	Forced     bool
	File       int // 0 none, 1 parses as old style only, 2 as new style only, 3 as both, 4 as neither
	Deprecated bool
	Observed   string // Lean: none (rejected) | some .old | some .new
}

// c20DetectRows runs the tool on every (-old-config-style, kind of file, deprecated flag present) and reads the style
// it used off the defaults it applied: without a generate list the old style turns on the client, the new one does not.
func c20DetectRows(env *c20Env) []c20DetectRow {
	files := map[int]string{
		1: c20Yaml(map[string]interface{}{"package": "p", "include-tags": []interface{}{"a"}}),
		2: c20Yaml(map[string]interface{}{"package": "p", "output-options": map[string]interface{}{"include-tags": []interface{}{"a"}}}),
		3: c20Yaml(map[string]interface{}{"package": "p"}),
		4: c20Yaml(map[string]interface{}{"package": "p", "no-such-key": 1}),
	}
	var rows []c20DetectRow
	for _, forced := range []bool{false, true} {
		for kind := 1; kind <= 4; kind++ { // without a file both styles read the same flags: nothing tells them apart
			for _, dep := range []bool{false, true} {
				fs := map[string]string{"spec.json": `{"openapi":"3.0.3","info":{"title":"t","version":"1"},"paths":{}}`}
				var args []string
				if kind == 0 {
					args = append(args, "-package", "p")
				} else {
					fs["cfg.yaml"] = files[kind]
					args = append(args, "-config", "cfg.yaml")
				}
				if forced {
					args = append(args, "-old-config-style")
				}
				if dep {
					args = append(args, "-exclude-tags", "zz")
				}
				m, _ := env.effective(fs, args...)
				obs := "none"
				if m != nil {
					obs = "some .new"
					if m["generate.client"] == "true" {
						obs = "some .old"
					}
				}
				rows = append(rows, c20DetectRow{forced, kind, dep, obs})
			}
		}
	}
	return rows
}

// ---------- RUN ----------

// c20Choice is one configuration, to be expressed in several ways.
type c20Choice struct {
	Pkg            string
	Targets        []string // documented target names
	IncludeTags    []string
	ExcludeTags    []string
	IncludeOps     []string
	ExcludeOps     []string
	ExcludeSchemas []string
	Suffix         string
	ImportMapping  map[string]string
	Compat         codegen.CompatibilityOptions
	Templates      map[string]string
	// expressible only in a new-style file (or its own flag)
	Initialism     bool
	ClientTypeName string
	NameNormalizer string
	NullableType   bool
	Output         bool // write to a file instead of stdout
}

var c20Aliases = map[string][]string{
	"iris": {"iris", "iris-server"}, "chi": {"chi-server", "chi"}, "fiber": {"fiber-server", "fiber"}, "echo": {"server", "echo-server", "echo"},
	"gin": {"gin", "gin-server"}, "gorilla": {"gorilla", "gorilla-server"}, "stdhttp": {"std-http", "std-http-server"}, "strict": {"strict-server"},
	"client": {"client"}, "models": {"types", "models"}, "spec": {"spec", "embedded-spec"}, "skipFmt": {"skip-fmt"}, "skipPrune": {"skip-prune"},
}

func c20SetFlag(cfg *codegen.Configuration, f string) {
	switch f {
	case "iris":
		cfg.Generate.IrisServer = true
	case "chi":
		cfg.Generate.ChiServer = true
	case "fiber":
		cfg.Generate.FiberServer = true
	case "echo":
		cfg.Generate.EchoServer = true
	case "gin":
		cfg.Generate.GinServer = true
	case "gorilla":
		cfg.Generate.GorillaServer = true
	case "stdhttp":
		cfg.Generate.StdHTTPServer = true
	case "strict":
		cfg.Generate.Strict = true
	case "client":
		cfg.Generate.Client = true
	case "models":
		cfg.Generate.Models = true
	case "spec":
		cfg.Generate.EmbeddedSpec = true
	case "skipFmt":
		cfg.OutputOptions.SkipFmt = true
	case "skipPrune":
		cfg.OutputOptions.SkipPrune = true
	}
}

var c20GenKey = map[string]string{"iris": "iris-server", "chi": "chi-server", "fiber": "fiber-server", "echo": "echo-server", "gin": "gin-server", "gorilla": "gorilla-server",
	"stdhttp": "std-http-server", "strict": "strict-server", "client": "client", "models": "models", "spec": "embedded-spec"}

func c20GenChoice(r *Rng, doc J, thorough bool) (c20Choice, []string) {
	var c c20Choice
	c.Pkg = r.Pick([]string{"api", "gen", "petstore"})
	servers := []string{"iris", "chi", "fiber", "echo", "gin", "gorilla", "stdhttp"}
	var flags []string
	if r.Chance(85) {
		flags = append(flags, r.Pick(servers))
		if r.Chance(40) {
			flags = append(flags, "strict")
		}
	}
	for _, f := range []string{"client", "models", "spec"} {
		if r.Chance(70) {
			flags = append(flags, f)
		}
	}
	if r.Chance(20) {
		flags = append(flags, "skipFmt")
	}
	if r.Chance(30) {
		flags = append(flags, "skipPrune")
	}
	// at least models so that something is generated
	hasModels := false
	for _, f := range flags {
		if f == "models" {
			hasModels = true
		}
	}
	if !hasModels && r.Chance(80) {
		flags = append(flags, "models")
	}
	for _, f := range flags {
		c.Targets = append(c.Targets, r.Pick(c20Aliases[f]))
	}
	shuffle(r, c.Targets)
	tags, ops, schemas := c20DocNames(doc)
	pickSome := func(pool []string, p int) []string {
		if len(pool) == 0 || !r.Chance(p) {
			return nil
		}
		n := 1 + r.Intn(2)
		var out []string
		for i := 0; i < n; i++ {
			out = append(out, r.Pick(pool))
		}
		return out
	}
	c.IncludeTags = pickSome(tags, 20)
	if c.IncludeTags == nil {
		c.ExcludeTags = pickSome(tags, 20)
	}
	c.IncludeOps = pickSome(ops, 15)
	if c.IncludeOps == nil {
		c.ExcludeOps = pickSome(ops, 20)
	}
	c.ExcludeSchemas = pickSome(schemas, 15)
	if r.Chance(30) {
		c.Suffix = r.Pick([]string{"Resp", "Result", "Reply"})
	}
	if r.Chance(20) {
		c.ImportMapping = map[string]string{"other.yaml": "example.com/other"}
	}
	if r.Chance(45) {
		c.Compat.OldAliasing = r.Bool()
		c.Compat.OldMergeSchemas = r.Bool()
		c.Compat.AlwaysPrefixEnumValues = r.Bool()
		c.Compat.ApplyChiMiddlewareFirstToLast = r.Bool()
		c.Compat.ApplyGorillaMiddlewareFirstToLast = r.Bool()
		c.Compat.OldEnumConflicts = r.Bool()
		c.Compat.DisableFlattenAdditionalProperties = r.Bool()
		c.Compat.DisableRequiredReadOnlyAsPointer = r.Bool()
	}
	if r.Chance(15) {
		c.Templates = map[string]string{"client-with-responses.tmpl": "// custom template " + r.Pick([]string{"a", "b"}) + "\n"}
	}
	c.Initialism = r.Chance(25)
	if r.Chance(20) {
		c.ClientTypeName = "MyClient"
	}
	if r.Chance(25) {
		c.NameNormalizer = r.Pick([]string{"ToCamelCase", "ToCamelCaseWithDigits", "ToCamelCaseWithInitialisms", "Unset"})
	}
	c.NullableType = r.Chance(20)
	c.Output = r.Bool()
	return c, flags
}

func c20DocNames(doc J) (tags, ops, schemas []string) {
	ts := map[string]bool{}
	if paths, ok := doc["paths"].(J); ok {
		for _, pi := range paths {
			pm, _ := pi.(J)
			for _, o := range pm {
				om, ok := o.(J)
				if !ok {
					continue
				}
				if id, ok := om["operationId"].(string); ok {
					ops = append(ops, id)
				}
				if tl, ok := om["tags"].([]interface{}); ok {
					for _, t := range tl {
						ts[fmt.Sprint(t)] = true
					}
				}
			}
		}
	}
	tags = SortedKeys(ts)
	sort.Strings(ops)
	if comps, ok := doc["components"].(J); ok {
		if ss, ok := comps["schemas"].(J); ok {
			schemas = SortedKeys(ss)
		}
	}
	return
}

// c20Library is the library call for the choice: the configuration a library user would write.
func c20Library(c c20Choice, flags []string) codegen.Configuration {
	var cfg codegen.Configuration
	cfg.PackageName = c.Pkg
	for _, f := range flags {
		c20SetFlag(&cfg, f)
	}
	cfg.OutputOptions.IncludeTags = c.IncludeTags
	cfg.OutputOptions.ExcludeTags = c.ExcludeTags
	cfg.OutputOptions.IncludeOperationIDs = c.IncludeOps
	cfg.OutputOptions.ExcludeOperationIDs = c.ExcludeOps
	cfg.OutputOptions.ExcludeSchemas = c.ExcludeSchemas
	cfg.OutputOptions.ResponseTypeSuffix = c.Suffix
	cfg.ImportMapping = c.ImportMapping
	cfg.Compatibility = c.Compat
	cfg.OutputOptions.UserTemplates = c.Templates
	cfg.OutputOptions.InitialismOverrides = c.Initialism
	cfg.OutputOptions.ClientTypeName = c.ClientTypeName
	cfg.OutputOptions.NameNormalizer = c.NameNormalizer
	cfg.OutputOptions.NullableType = c.NullableType
	return cfg.UpdateDefaults()
}

// c20Express renders the choice in one of the supported ways: files to write and arguments.
func c20Express(r *Rng, mode string, c c20Choice, flags []string) (map[string]string, []string) {
	files := map[string]string{}
	var args []string
	strs := func(xs []string) []interface{} {
		var o []interface{}
		for _, x := range xs {
			o = append(o, x)
		}
		return o
	}
	// the documented key of every compatibility switch, written out by hand: marshalling the struct would take the
	// key names from the very tags under test
	compat := map[string]interface{}{}
	for key, on := range map[string]bool{
		"old-merge-schemas": c.Compat.OldMergeSchemas, "old-enum-conflicts": c.Compat.OldEnumConflicts, "old-aliasing": c.Compat.OldAliasing,
		"disable-flatten-additional-properties": c.Compat.DisableFlattenAdditionalProperties, "disable-required-readonly-as-pointer": c.Compat.DisableRequiredReadOnlyAsPointer,
		"always-prefix-enum-values": c.Compat.AlwaysPrefixEnumValues, "apply-chi-middleware-first-to-last": c.Compat.ApplyChiMiddlewareFirstToLast,
		"apply-gorilla-middleware-first-to-last": c.Compat.ApplyGorillaMiddlewareFirstToLast} {
		if on {
			compat[key] = true
		}
	}
	tplDir := ""
	if c.Templates != nil {
		tplDir = "tpl"
		for n, t := range c.Templates {
			files["tpl/"+n] = t
		}
	}
	out := ""
	if c.Output {
		out = "out.go"
	}
	switch mode {
	case "new-file":
		m := map[string]interface{}{"package": c.Pkg}
		g := map[string]interface{}{}
		oo := map[string]interface{}{}
		for _, f := range flags {
			switch f {
			case "skipFmt":
				oo["skip-fmt"] = true
			case "skipPrune":
				oo["skip-prune"] = true
			default:
				g[c20GenKey[f]] = true
			}
		}
		if len(g) > 0 {
			m["generate"] = g
		}
		set := func(k string, xs []string) {
			if xs != nil {
				oo[k] = strs(xs)
			}
		}
		set("include-tags", c.IncludeTags)
		set("exclude-tags", c.ExcludeTags)
		set("include-operation-ids", c.IncludeOps)
		set("exclude-operation-ids", c.ExcludeOps)
		set("exclude-schemas", c.ExcludeSchemas)
		if c.Suffix != "" {
			oo["response-type-suffix"] = c.Suffix
		}
		if c.Templates != nil {
			ut := map[string]interface{}{}
			for n, t := range c.Templates {
				ut[n] = t
			}
			oo["user-templates"] = ut
			tplDir = ""
		}
		if c.Initialism {
			oo["initialism-overrides"] = true
		}
		if c.ClientTypeName != "" {
			oo["client-type-name"] = c.ClientTypeName
		}
		if c.NameNormalizer != "" {
			oo["name-normalizer"] = c.NameNormalizer
		}
		if c.NullableType {
			oo["nullable-type"] = true
		}
		if len(oo) > 0 {
			m["output-options"] = oo
		}
		if c.ImportMapping != nil {
			im := map[string]interface{}{}
			for k, v := range c.ImportMapping {
				im[k] = v
			}
			m["import-mapping"] = im
		}
		if len(compat) > 0 {
			m["compatibility"] = compat
		}
		if out != "" {
			m["output"] = out
		}
		files["cfg.yaml"] = c20Yaml(m)
		args = []string{"-config", "cfg.yaml"}
	case "old-file", "flags", "mixed-old", "inferred-old":
		// every item goes to the file or to a flag. inferred-old: the file holds only keys both styles know, so that it
		// reads as either; the old style then follows from a deprecated flag on the command line, not from -old-config-style
		m := map[string]interface{}{}
		shared := map[string]bool{"package": true, "output": true, "import-mapping": true}
		deprecated := map[string]bool{"include-tags": true, "exclude-tags": true, "import-mapping": true, "exclude-schemas": true, "response-type-suffix": true}
		sawDeprecated := false
		toFile := func(key string) bool {
			switch mode {
			case "old-file":
				return true
			case "flags":
				return false
			case "inferred-old":
				return shared[key] && r.Bool()
			}
			return r.Bool()
		}
		put := func(key string, yv interface{}, fv string) {
			if toFile(key) {
				m[key] = yv
			} else {
				if deprecated[key] {
					sawDeprecated = true
				}
				flagName := key
				if key == "output" {
					flagName = "o"
				}
				args = append(args, "-"+flagName, fv)
			}
		}
		put("package", c.Pkg, c.Pkg)
		put("generate", strs(c.Targets), strings.Join(c.Targets, ","))
		list := func(key string, xs []string) {
			if xs != nil {
				put(key, strs(xs), strings.Join(xs, ","))
			}
		}
		list("include-tags", c.IncludeTags)
		list("exclude-tags", c.ExcludeTags)
		list("include-operation-ids", c.IncludeOps)
		list("exclude-operation-ids", c.ExcludeOps)
		list("exclude-schemas", c.ExcludeSchemas)
		if c.Suffix != "" {
			put("response-type-suffix", c.Suffix, c.Suffix)
		}
		if tplDir != "" {
			// the directory under one of its spellings, in turn
			sp := []string{tplDir, "./" + tplDir, tplDir + "/", "./" + tplDir + "/"}[c20TplSpelling%4]
			c20TplSpelling++
			put("templates", sp, sp)
		}
		if c.ImportMapping != nil {
			im := map[string]interface{}{}
			var kv []string
			for _, k := range SortedKeys(c.ImportMapping) {
				im[k] = c.ImportMapping[k]
				kv = append(kv, k+":"+c.ImportMapping[k])
			}
			put("import-mapping", im, strings.Join(kv, ","))
		}
		if out != "" {
			put("output", out, out)
		}
		if len(compat) > 0 {
			m["compatibility"] = compat // no flag for it
		}
		if c.Initialism {
			args = append(args, "-initialism-overrides")
		}
		style := []string{"-old-config-style"}
		if mode == "inferred-old" && sawDeprecated {
			style = nil
		}
		if len(m) > 0 {
			files["cfg.yaml"] = c20Yaml(m)
			args = append(append([]string{"-config", "cfg.yaml"}, style...), args...)
		} else {
			args = append(style, args...)
		}
	}
	return files, args
}

// oldExpressible: options the old style and the legacy flags cannot say are dropped from the choice.
func c20OldExpressible(c c20Choice) c20Choice {
	c.ClientTypeName, c.NameNormalizer, c.NullableType = "", "", false
	return c
}

func c20Mask(s string) string {
	lines := strings.SplitN(s, "\n", 6)
	for i, l := range lines {
		if i < 5 && strings.HasPrefix(l, "// Code generated by ") {
			lines[i] = "// Code generated by <masked>"
		}
	}
	return strings.Join(lines, "\n")
}

func runC20(ctx *Ctx) error {
	ctx.Res.Rule = "TAB (Gen/C20.lean, kernel-checked): target lists x {flag, old-style file}, every configuration key, every old-style key and legacy flag, the configuration style settled on for every (-old-config-style, kind of file, deprecated flag), through -output-config of the tool built from the working tree; RUN: seeded (document, configuration) x {new-style file, old-style file, legacy flags, file+flags, a file readable in both styles + deprecated flags without -old-config-style}: bytes of the tool's output vs codegen.Generate with the equivalent configuration (header line masked), -output-config fed back reproduces the output, rejected configurations (unknown key at every level and style, unknown target, two servers) exit non-zero and leave no output; non-trivial = every (document, configuration, mode) Session 9: the output file exists already with a much longer earlier result."
	bin, err := c20Build(ctx)
	if err != nil {
		return err
	}
	env := &c20Env{bin: bin, dir: ctx.Work}
	n := ctx.N(40, 300)
	modes := []string{"new-file", "old-file", "flags", "mixed-old", "inferred-old"}
	type job struct {
		i    int
		doc  J
		c    c20Choice
		fl   []string
		mode string
		r    *Rng
	}
	var jobs []job
	for i := 0; i < n; i++ {
		r := ctx.Rng.Fork()
		doc, _ := genSpec(r, SpecOpts{})
		c, fl := c20GenChoice(r, doc, ctx.Thorough())
		mode := modes[i%len(modes)]
		if mode != "new-file" {
			c = c20OldExpressible(c)
		}
		jobs = append(jobs, job{i, doc, c, fl, mode, r.Fork()})
	}
	// no package name anywhere (it is derived from the name of the specification file) and a configuration file that says
	// nothing (comments only): the code is the one an explicit package name gives, and only the code goes to stdout
	{
		d := env.tmp()
		doc0, _ := genSpec(ctx.Rng.Fork(), SpecOpts{Small: true})
		_ = os.WriteFile(filepath.Join(d, "petShop.json"), []byte(Canon(doc0)), 0o644)
		_ = os.WriteFile(filepath.Join(d, "empty.yaml"), []byte("# nothing configured here\n\n"), 0o644)
		_ = os.WriteFile(filepath.Join(d, "none.yaml"), []byte(""), 0o644)
		_ = os.WriteFile(filepath.Join(d, "pkg.yaml"), []byte("package: petShop\n"), 0o644)
		explicitFlags := c20Exec(bin, d, "-package", "petShop", "petShop.json")
		explicitFile := c20Exec(bin, d, "-config", "pkg.yaml", "petShop.json") // a new-style file has defaults of its own
		for _, v := range []struct {
			name string
			args []string
			file bool
		}{{"no-package", []string{"petShop.json"}, false}, {"comment-only-config", []string{"-config", "empty.yaml", "-package", "petShop", "petShop.json"}, true},
			{"zero-byte-config", []string{"-config", "none.yaml", "-package", "petShop", "petShop.json"}, true}, {"comment-only-config-no-package", []string{"-config", "empty.yaml", "petShop.json"}, true}} {
			explicit := explicitFlags
			if v.file {
				explicit = explicitFile
			}
			run := c20Exec(bin, d, v.args...)
			ctx.Res.Eval(J{"defaults": v.name}, true)
			ctx.Res.Count("defaults:" + v.name)
			replay := J{"doc": doc0, "args": v.args, "explicit": []string{"-package", "petShop", "petShop.json"}}
			if explicit.Exit != 0 {
				break // the defaults themselves do not generate this document: nothing to compare with
			}
			if run.Exit != 0 {
				ctx.Res.Violate("defaults:"+v.name+":rejected", fmt.Sprintf("the tool rejects %v (exit %d: %s) although it says the same as -package petShop", v.args, run.Exit, firstLine(strings.TrimSpace(run.Stderr))), replay)
			} else if c20Mask(run.Stdout) != c20Mask(explicit.Stdout) {
				ctx.Res.Violate("defaults:"+v.name+":differs", fmt.Sprintf("stdout of %v differs from stdout with the package name given: %s", v.args, firstDiff(c17Outcome{Out: c20Mask(run.Stdout)}, c17Outcome{Out: c20Mask(explicit.Stdout)})), replay)
			}
		}
		os.RemoveAll(d)
	}
	var mu sync.Mutex
	parallelDo(len(jobs), func(k int) {
		j := jobs[k]
		d := env.tmp()
		defer os.RemoveAll(d)
		specBytes := []byte(Canon(j.doc))
		_ = os.WriteFile(filepath.Join(d, "spec.json"), specBytes, 0o644)
		files, args := c20Express(j.r, j.mode, j.c, j.fl)
		for nm, c := range files {
			_ = os.MkdirAll(filepath.Dir(filepath.Join(d, nm)), 0o755)
			_ = os.WriteFile(filepath.Join(d, nm), []byte(c), 0o644)
		}
		if j.c.Output {
			// the output file is there already, from an earlier and much longer result: the new one replaces it
			_ = os.WriteFile(filepath.Join(d, "out.go"), []byte("package stale\n"+strings.Repeat("// the result of an earlier run of the tool\n", 60000)), 0o644)
		}
		run := c20Exec(bin, d, append(append([]string{}, args...), "spec.json")...)
		cliOut, cliErr := "", ""
		if run.Exit != 0 {
			cliErr = strings.TrimSpace(run.Stderr)
		} else if j.c.Output {
			b, err := os.ReadFile(filepath.Join(d, "out.go"))
			if err != nil {
				cliErr = "no output file written: " + err.Error()
			}
			cliOut = string(b)
		} else {
			cliOut = run.Stdout
		}
		// the library, with the same loader
		cfg := c20Library(j.c, j.fl)
		var libOut, libErr string
		if err := cfg.Validate(); err != nil {
			libErr = err.Error()
		} else if spec, err := util.LoadSwaggerWithCircularReferenceCount(filepath.Join(d, "spec.json"), cfg.Compatibility.CircularReferenceLimit); err != nil {
			libErr = "load: " + err.Error()
		} else {
			mu.Lock() // Generate uses package state
			libOut, err = generate(spec, cfg)
			mu.Unlock()
			if err != nil {
				libErr = err.Error()
			}
		}
		replay := J{"doc": j.doc, "choice": j.c, "mode": j.mode, "files": files, "args": args, "library_cfg": cfg}
		mu.Lock()
		defer mu.Unlock()
		ctx.Res.Eval(J{"doc": Hash(j.doc), "mode": j.mode, "targets": j.c.Targets}, true)
		ctx.Res.Count("mode:" + j.mode)
		switch {
		case libErr != "" && cliErr != "":
			ctx.Res.Count("both-error")
			if _, err := os.Stat(filepath.Join(d, "out.go")); err == nil {
				ctx.Res.Violate("rejected-but-output:"+j.mode, "the tool exits non-zero but leaves an output file", replay)
			}
		case libErr != "":
			ctx.Res.Violate("cli-succeeds-library-fails:"+j.mode, "library: "+firstLine(libErr), replay)
		case cliErr != "":
			ctx.Res.Violate("cli-fails-library-succeeds:"+j.mode, "tool: "+firstLine(cliErr), replay)
		default:
			ctx.Res.Count("both-ok")
			if c20Mask(cliOut) != c20Mask(libOut) {
				ctx.Res.Violate("cli-differs-from-library:"+j.mode, "the tool's output differs from codegen.Generate with the equivalent configuration: "+
					firstDiff(c17Outcome{Out: c20Mask(cliOut)}, c17Outcome{Out: c20Mask(libOut)}), replay)
			}
		}
		if cliErr != "" {
			return
		}
		// -output-config fed back
		oc := c20Exec(bin, d, append(append([]string{}, args...), "-output-config", "spec.json")...)
		if oc.Exit != 0 {
			ctx.Res.Violate("output-config-fails:"+j.mode, "-output-config fails where generation succeeds: "+firstLine(oc.Stderr), replay)
			return
		}
		_ = os.Remove(filepath.Join(d, "out.go"))
		_ = os.WriteFile(filepath.Join(d, "cfg2.yaml"), []byte(oc.Stdout), 0o644)
		run2 := c20Exec(bin, d, "-config", "cfg2.yaml", "spec.json")
		out2 := run2.Stdout
		if run2.Exit == 0 && j.c.Output {
			b, _ := os.ReadFile(filepath.Join(d, "out.go"))
			out2 = string(b)
		}
		if run2.Exit != 0 {
			ctx.Res.Violate("output-config-roundtrip:"+j.mode, "the configuration printed by -output-config is rejected when fed back: "+firstLine(run2.Stderr), replay)
		} else if out2 != cliOut {
			ctx.Res.Violate("output-config-roundtrip:"+j.mode, "the configuration printed by -output-config generates different code: "+
				firstDiff(c17Outcome{Out: out2}, c17Outcome{Out: cliOut}), replay)
		}
	})
	// rejections
	type rej struct {
		name  string
		files map[string]string
		args  []string
	}
	newBase := func(mut func(m map[string]interface{})) string {
		m := map[string]interface{}{"package": "p", "generate": map[string]interface{}{"models": true, "chi-server": true},
			"output-options": map[string]interface{}{"skip-prune": true}, "compatibility": map[string]interface{}{"old-aliasing": true}, "output": "out.go"}
		mut(m)
		return c20Yaml(m)
	}
	oldBase := func(mut func(m map[string]interface{})) string {
		m := map[string]interface{}{"package": "p", "generate": []interface{}{"types", "chi-server"}, "output": "out.go"}
		mut(m)
		return c20Yaml(m)
	}
	rejs := []rej{
		{"unknown-key:new:top", map[string]string{"cfg.yaml": newBase(func(m map[string]interface{}) { m["pakage"] = "x" })}, []string{"-config", "cfg.yaml"}},
		{"unknown-key:new:generate", map[string]string{"cfg.yaml": newBase(func(m map[string]interface{}) { m["generate"].(map[string]interface{})["chi"] = true })}, []string{"-config", "cfg.yaml"}},
		{"unknown-key:new:output-options", map[string]string{"cfg.yaml": newBase(func(m map[string]interface{}) { m["output-options"].(map[string]interface{})["skip-format"] = true })}, []string{"-config", "cfg.yaml"}},
		{"unknown-key:new:compatibility", map[string]string{"cfg.yaml": newBase(func(m map[string]interface{}) { m["compatibility"].(map[string]interface{})["old-alias"] = true })}, []string{"-config", "cfg.yaml"}},
		{"unknown-key:old", map[string]string{"cfg.yaml": oldBase(func(m map[string]interface{}) { m["include-tag"] = []interface{}{"a"} })}, []string{"-config", "cfg.yaml"}},
		{"unknown-key:old:forced", map[string]string{"cfg.yaml": oldBase(func(m map[string]interface{}) { m["include-tag"] = []interface{}{"a"} })}, []string{"-config", "cfg.yaml", "-old-config-style"}},
		{"unknown-key:old:compatibility", map[string]string{"cfg.yaml": oldBase(func(m map[string]interface{}) { m["compatibility"] = map[string]interface{}{"old-alias": true} })}, []string{"-config", "cfg.yaml"}},
		{"unknown-key:new-keys-in-forced-old", map[string]string{"cfg.yaml": newBase(func(m map[string]interface{}) {})}, []string{"-config", "cfg.yaml", "-old-config-style"}},
		{"unknown-target:flag", nil, []string{"-package", "p", "-o", "out.go", "-generate", "types,bogus"}},
		{"unknown-target:old-file", map[string]string{"cfg.yaml": oldBase(func(m map[string]interface{}) { m["generate"] = []interface{}{"types", "bogus"} })}, []string{"-config", "cfg.yaml"}},
		{"unknown-target:flag-with-new-file", map[string]string{"cfg.yaml": newBase(func(m map[string]interface{}) {})}, []string{"-config", "cfg.yaml", "-generate", "chi-server,modelz"}},
		{"two-servers:new-file", map[string]string{"cfg.yaml": newBase(func(m map[string]interface{}) { m["generate"].(map[string]interface{})["gin-server"] = true })}, []string{"-config", "cfg.yaml"}},
		{"two-servers:old-file", map[string]string{"cfg.yaml": oldBase(func(m map[string]interface{}) { m["generate"] = []interface{}{"types", "chi-server", "server"} })}, []string{"-config", "cfg.yaml"}},
		{"two-servers:flag", nil, []string{"-package", "p", "-o", "out.go", "-generate", "gorilla,std-http,types"}},
		{"two-servers:flag-with-new-file", map[string]string{"cfg.yaml": newBase(func(m map[string]interface{}) {})}, []string{"-config", "cfg.yaml", "-generate", "iris,fiber"}},
	}
	for _, rj := range rejs {
		d := env.tmp()
		for nm, c := range rj.files {
			_ = os.WriteFile(filepath.Join(d, nm), []byte(c), 0o644)
		}
		run := c20Exec(bin, d, append(append([]string{}, rj.args...), "spec.json")...)
		ctx.Res.Eval(J{"rejection": rj.name}, true)
		ctx.Res.Count("rejection")
		replay := J{"case": rj.name, "files": rj.files, "args": rj.args, "exit": run.Exit, "stderr": run.Stderr}
		if run.Exit == 0 {
			ctx.Res.Violate("accepted:"+rj.name, "a configuration that must be rejected is accepted (exit 0)", replay)
		} else {
			if _, err := os.Stat(filepath.Join(d, "out.go")); err == nil {
				ctx.Res.Violate("rejected-but-output:"+rj.name, "the tool exits non-zero but leaves an output file", replay)
			}
			if strings.Contains(run.Stdout, "package ") {
				ctx.Res.Violate("rejected-but-output:"+rj.name, "the tool exits non-zero but prints code", replay)
			}
		}
		_ = os.RemoveAll(d)
	}
	// the tables that Lean checks are re-derived here so that a broken row comes with its replay
	names, err := c20SwitchNames()
	if err != nil {
		return err
	}
	known := map[string]bool{}
	for _, al := range c20Aliases {
		for _, a := range al {
			known[a] = true
		}
	}
	for _, nme := range names {
		if !known[nme] {
			ctx.Res.Disagree("FACT Gen/C20.lean: a name accepted by generationTargets is not in the documented table", J{"name": nme}, "documented", "undocumented")
		}
	}
	for _, row := range c20Targets(env, names) {
		ctx.Res.Count("target-row")
		want := c20ModelTargets(row.Targets)
		if row.Flag != want || row.Old != want {
			ctx.Res.Violate("target:"+strings.Join(row.Targets, ","), fmt.Sprintf("-generate %s: documented effect %s, the tool reports %s (flag) / %s (old-style file)", strings.Join(row.Targets, ","), want, row.Flag, row.Old),
				J{"targets": row.Targets, "via_flag": row.Flag, "via_old_file": row.Old, "documented": want})
		}
	}
	for _, r := range c20DetectRows(env) {
		ctx.Res.Count("detect-row")
		// the documented rule: -old-config-style demands a file readable as old style; otherwise the file decides when it
		// reads as one style only, a file readable as neither is refused, one readable as both is old exactly when a
		// deprecated flag is given
		oldOk, newOk := r.File == 1 || r.File == 3, r.File == 2 || r.File == 3
		want := "none"
		switch {
		case r.Forced:
			if oldOk {
				want = "some .old"
			}
		case oldOk && !newOk:
			want = "some .old"
		case newOk && !oldOk:
			want = "some .new"
		case oldOk && newOk:
			want = "some .new"
			if r.Deprecated {
				want = "some .old"
			}
		}
		if r.Observed != want {
			ctx.Res.Violate(fmt.Sprintf("style-detection:forced=%v:file=%d:deprecated-flag=%v", r.Forced, r.File, r.Deprecated),
				fmt.Sprintf("-old-config-style=%v, configuration file kind %d (1 old only, 2 new only, 3 both, 4 neither), deprecated flag present=%v: the tool settles on %s, documented %s", r.Forced, r.File, r.Deprecated, r.Observed, want), J{"row": r})
		}
	}
	krs, err := c20Keys(env)
	if err != nil {
		return err
	}
	for _, r := range krs {
		ctx.Res.Count("key-row")
		ok := r.InSchema && r.InStruct && r.Accepted && len(r.Changed) == 1 && r.Changed[0] == r.Key && r.RoundTrip
		if !ok {
			ctx.Res.Violate("key:"+r.Key, fmt.Sprintf("configuration key %s: in documented schema %v, known to the tool %v, accepted %v, changes %v, reads back %v", r.Key, r.InSchema, r.InStruct, r.Accepted, r.Changed, r.RoundTrip), J{"row": r})
		}
	}
	docKey := map[string]string{"package": "package", "generate": "generate.chi-server", "output": "output", "o": "output", "include-tags": "output-options.include-tags",
		"exclude-tags": "output-options.exclude-tags", "include-operation-ids": "output-options.include-operation-ids", "exclude-operation-ids": "output-options.exclude-operation-ids",
		"templates": "output-options.user-templates", "import-mapping": "import-mapping", "exclude-schemas": "output-options.exclude-schemas",
		"response-type-suffix": "output-options.response-type-suffix", "compatibility": "compatibility.old-aliasing", "initialism-overrides": "output-options.initialism-overrides"}
	for _, r := range c20Trans(env) {
		ctx.Res.Count("translation-row")
		ok := r.Accepted && r.RoundTrip && len(r.Changed) == 1 && r.Changed[0] == docKey[r.Name]
		if !ok {
			ctx.Res.Violate("translation:"+r.Style+":"+r.Name, fmt.Sprintf("%s %s: accepted %v, changes %v (documented: %s), value carried %v", r.Style, r.Name, r.Accepted, r.Changed, docKey[r.Name], r.RoundTrip), J{"row": r})
		}
	}
	return nil
}

// c20ModelTargets is the documented effect of a target list in the notation of the Lean rows.
func c20ModelTargets(ts []string) string {
	rev := map[string]string{}
	for f, al := range c20Aliases {
		for _, a := range al {
			rev[a] = f
		}
	}
	on := map[string]bool{}
	for _, t := range ts {
		f, ok := rev[t]
		if !ok {
			return "none"
		}
		on[f] = true
	}
	gen := 0
	servers := 0
	for f := range on {
		if f != "skipFmt" && f != "skipPrune" {
			gen++
		}
		switch f {
		case "iris", "chi", "fiber", "echo", "gin", "gorilla", "stdhttp":
			servers++
		}
	}
	if gen == 0 {
		on["echo"], on["models"], on["spec"] = true, true, true
		servers = 1
	}
	if servers > 1 {
		return "none"
	}
	var l []string
	for _, f := range c20FlagOrder {
		if on[f.lean] {
			l = append(l, "."+f.lean)
		}
	}
	return "some [" + strings.Join(l, ", ") + "]"
}

func firstLine(s string) string {
	s = strings.TrimSpace(s)
	if i := strings.Index(s, "\n"); i > 0 {
		return s[:i]
	}
	return s
}

var c20TplSpelling int

func init() {
	register("c20", runC20)
	register("gen-c20", genC20)
}
