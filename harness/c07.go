package main

import (
	"bytes"
	"encoding/base64"
	"encoding/json"
	"fmt"
	"math/big"
	"sort"
	"strings"
	"time"

	"github.com/oapi-codegen/oapi-codegen/v2/pkg/codegen"
)

// C07 — generated models round-trip JSON without loss.

type c07Gen struct {
	r      *Rng
	nComp  int
	stats  map[string]int
	compat codegen.CompatibilityOptions
}

func (g *c07Gen) count(k string) { g.stats[k]++ }

// prim returns a primitive schema and its class.
func (g *c07Gen) prim() J {
	r := g.r
	switch r.Intn(13) {
	case 12:
		// the integer formats of the documented table beyond int32/int64
		return J{"type": "integer", "format": r.Pick([]string{"int8", "int16", "int", "uint8", "uint16", "uint32", "uint64", "uint"})}
	case 0:
		return J{"type": "string"}
	case 1:
		return J{"type": "string", "format": "date"}
	case 2:
		return J{"type": "string", "format": "date-time"}
	case 3:
		return J{"type": "string", "format": "uuid"}
	case 4:
		return J{"type": "integer"}
	case 5:
		return J{"type": "integer", "format": "int32"}
	case 6:
		return J{"type": "integer", "format": "int64"}
	case 7:
		return J{"type": "number"}
	case 8:
		return J{"type": "number", "format": "double"}
	case 9:
		return J{"type": "boolean"}
	case 10:
		return J{"type": "string", "enum": []interface{}{"red", "green", "dark blue"}}
	default:
		return J{"type": "string", "format": "email"}
	}
}

func (g *c07Gen) schema(depth int, allowRef bool) J {
	r := g.r
	if depth <= 0 {
		return g.prim()
	}
	switch p := r.Intn(100); {
	case p < 40:
		return g.prim()
	case p < 52:
		g.count("array")
		return J{"type": "array", "items": g.schema(depth-1, allowRef)}
	case p < 62:
		g.count("map")
		return J{"type": "object", "additionalProperties": g.schema(depth-1, allowRef)}
	case p < 72 && allowRef && g.nComp > 0:
		g.count("ref")
		return J{"$ref": fmt.Sprintf("#/components/schemas/T%d", r.Intn(g.nComp))}
	default:
		return g.object(depth-1, allowRef)
	}
}

func (g *c07Gen) object(depth int, allowRef bool) J {
	r := g.r
	g.count("object")
	props := J{}
	var req []interface{}
	n := 1 + r.Intn(4)
	for i := 0; i < n; i++ {
		name := r.Pick([]string{"id", "name", "value", "count", "tags", "meta", "kind", "created_at", "x-y", "Upper", "a1", "data"})
		if _, dup := props[name]; dup {
			continue
		}
		s := g.schema(depth, allowRef)
		if _, isRef := s["$ref"]; !isRef {
			if r.Chance(20) {
				s["nullable"] = true
				g.count("nullable")
			}
			if r.Chance(8) {
				s["readOnly"] = true
				g.count("readOnly")
			} else if r.Chance(8) {
				s["writeOnly"] = true
				g.count("writeOnly")
			}
		}
		props[name] = s
		if r.Chance(45) {
			req = append(req, name)
		}
	}
	o := J{"type": "object", "properties": props}
	if len(req) > 0 {
		o["required"] = req
	}
	switch p := r.Intn(10); {
	case p < 2:
		o["additionalProperties"] = true
		g.count("addl:true")
	case p < 3:
		o["additionalProperties"] = false
		g.count("addl:false")
	case p < 5:
		o["additionalProperties"] = g.prim()
		g.count("addl:schema")
	}
	return o
}

func (g *c07Gen) doc() J {
	r := g.r
	schemas := J{}
	total := 4 + r.Intn(4)
	var objs []int // components that are plain objects (allOf members must be objects)
	for i := 0; i < total; i++ {
		g.nComp = i // refs only to earlier components: no cycles
		var s J
		switch p := r.Intn(10); {
		case p < 6:
			s = g.object(2, true)
			if _, closed := s["additionalProperties"].(bool); !closed {
				objs = append(objs, i)
			}
		case p < 7 && len(objs) > 0:
			g.count("allOf")
			s = J{"allOf": []interface{}{J{"$ref": fmt.Sprintf("#/components/schemas/T%d", objs[r.Intn(len(objs))])}, g.objectPlain(fmt.Sprintf("ext%d", i))}}
		case p < 8 && i >= 2:
			g.count("oneOf")
			a := r.Intn(i)
			b := (a + 1 + r.Intn(i-1)) % i // two different members
			s = J{"oneOf": []interface{}{J{"$ref": fmt.Sprintf("#/components/schemas/T%d", a)}, J{"$ref": fmt.Sprintf("#/components/schemas/T%d", b)}}}
		default:
			s = g.schema(2, true)
		}
		schemas[fmt.Sprintf("T%d", i)] = s
	}
	// two fixed shapes in every document: the member kinds whose encoding depends on a template guard or a tag rule
	schemas["FixA"] = J{"type": "object", "required": []interface{}{"id", "note"}, "additionalProperties": true,
		"properties": J{"id": J{"type": "integer", "format": "int64"}, "note": J{"type": "string", "nullable": true}, "tag": J{"type": "string"},
			"opt_note": J{"type": "string", "nullable": true}}}
	schemas["FixB"] = J{"type": "object", "required": []interface{}{"id", "name", "active", "label", "secret"},
		"properties": J{"id": J{"type": "integer", "format": "int64", "readOnly": true}, "name": J{"type": "string", "readOnly": true},
			"active": J{"type": "boolean", "readOnly": true}, "label": J{"type": "string"}, "count": J{"type": "integer"},
			"secret": J{"type": "string", "writeOnly": true}, "items": J{"type": "array", "items": J{"type": "string"}, "readOnly": true}}}
	// maps whose value schema is nullable: a plain one and two whose values get a named type of their own (an enum, an
	// object with additional members) — an explicit null entry must come back as null
	schemas["FixC"] = J{"type": "object", "properties": J{
		"plain":  J{"type": "object", "additionalProperties": J{"type": "string", "nullable": true}},
		"labels": J{"type": "object", "additionalProperties": J{"type": "string", "enum": []interface{}{"a", "b"}, "nullable": true}},
		"nested": J{"type": "object", "additionalProperties": J{"type": "object", "nullable": true, "properties": J{"x": J{"type": "string"}}, "additionalProperties": J{"type": "integer"}}}}}
	// arrays whose items are inline objects with additional members (typed and untyped), as a member and as a component
	schemas["FixE"] = J{"type": "object", "properties": J{
		"entries": J{"type": "array", "items": J{"type": "object", "properties": J{"sku": J{"type": "string"}}, "additionalProperties": J{"type": "integer"}}},
		"loose":   J{"type": "array", "items": J{"type": "object", "properties": J{"sku": J{"type": "string"}}, "additionalProperties": true}}}}
	schemas["FixF"] = J{"type": "array", "items": J{"type": "object", "properties": J{"sku": J{"type": "string"}}, "additionalProperties": J{"type": "integer"}}}
	// a union that has members of its own and additional ones: the 64-bit member must not pass through a float on its way
	schemas["FixD"] = J{"type": "object", "required": []interface{}{"id"}, "additionalProperties": true,
		"properties": J{"id": J{"type": "integer", "format": "int64"}, "title": J{"type": "string"}},
		"oneOf":      []interface{}{J{"type": "object", "properties": J{"m1": J{"type": "string"}}}}}
	// every integer format of the documented table: the extremes of each must survive (a member mapped to a narrower or
	// signed type loses them)
	fixG := J{}
	for _, f := range []string{"int8", "int16", "int32", "int64", "int", "uint8", "uint16", "uint32", "uint64", "uint"} {
		fixG["n_"+f] = J{"type": "integer", "format": f}
	}
	schemas["FixG"] = J{"type": "object", "properties": fixG}
	// an array of uint8 items is a []uint8, which Go treats as []byte
	schemas["FixI"] = J{"type": "object", "properties": J{"octets": J{"type": "array", "items": J{"type": "integer", "format": "uint8"}}, "words": J{"type": "array", "items": J{"type": "integer", "format": "uint16"}}}}
	// a base whose required list has three entries and a composition, declared before it, that makes one more of its
	// members required: the base itself still has that member optional
	schemas["FixBase"] = J{"type": "object", "required": []interface{}{"id", "name", "zed"},
		"properties": J{"id": J{"type": "integer"}, "name": J{"type": "string"}, "zed": J{"type": "string"}, "age": J{"type": "integer"}, "bio": J{"type": "string"}}}
	// components that are nothing but a reference to an object with additional members / to a union: the alias has the
	// methods of what it refers to, whatever the options say about aliases of other types
	schemas["A1Alias"] = J{"$ref": "#/components/schemas/FixA"}
	schemas["A0Derived"] = J{"allOf": []interface{}{J{"$ref": "#/components/schemas/FixBase"}, J{"type": "object", "required": []interface{}{"age"}, "properties": J{"extra": J{"type": "string"}}}}}
	// a union with optional members of its own, nullable and not: an absent one that is not nullable must stay absent
	schemas["FixH"] = J{"type": "object", "required": []interface{}{"id"},
		"properties": J{"id": J{"type": "integer"}, "title": J{"type": "string"}, "note": J{"type": "string", "nullable": true}, "size": J{"type": "integer", "format": "int64"}},
		"oneOf":      []interface{}{J{"type": "object", "properties": J{"m1": J{"type": "string"}}}}}
	return J{"openapi": "3.0.3", "info": J{"title": "t", "version": "1"}, "paths": J{}, "components": J{"schemas": schemas}}
}

func (g *c07Gen) objectPlain(prefix string) J {
	o := J{"type": "object", "required": []interface{}{prefix + "_r"}, "properties": J{prefix + "_r": J{"type": "string"}, prefix + "_o": J{"type": "integer"}}}
	if g.r.Bool() {
		// the later member is the one that allows additional members
		o["additionalProperties"] = true
		g.count("allOf:addl-in-later-member")
	}
	return o
}

// ---------- schema-directed instances ----------

type c07Inst struct {
	r        *Rng
	schemas  J
	classes  map[string]bool
	noExtras bool
}

var c07Strings = []string{"", "a", "plain text", "quote\"back\\slash", "line\nbreak\ttab", "é日本😀", "<&>", " ", "null", "0"}

func (g *c07Inst) mark(c string) { g.classes[c] = true }

func (g *c07Inst) value(s J, depth int) interface{} {
	r := g.r
	if ref, ok := s["$ref"].(string); ok {
		return g.value(g.schemas[strings.TrimPrefix(ref, "#/components/schemas/")].(J), depth)
	}
	if n, _ := s["nullable"].(bool); n && r.Chance(25) {
		g.mark("explicit-null")
		return nil
	}
	if all, ok := s["allOf"].([]interface{}); ok {
		out := map[string]interface{}{}
		// additional members must be valid against every member: only one member (a typed one if there is one) supplies
		// them, none if some member forbids them
		deref := func(m J) J {
			for {
				ref, ok := m["$ref"].(string)
				if !ok {
					return m
				}
				m = g.schemas[strings.TrimPrefix(ref, "#/components/schemas/")].(J)
			}
		}
		supplier, forbidden := -1, false
		for i, m := range all {
			switch ap := deref(m.(J))["additionalProperties"].(type) {
			case bool:
				if !ap {
					forbidden = true
				} else if supplier < 0 {
					supplier = i
				}
			case J:
				supplier = i
				_ = ap
			}
		}
		for i, m := range all {
			saved := g.noExtras
			g.noExtras = saved || forbidden || i != supplier
			v := g.value(m.(J), depth)
			g.noExtras = saved
			if o, ok := v.(map[string]interface{}); ok {
				for k, v := range o {
					out[k] = v
				}
			}
		}
		// a member may require what another member declares: a valid instance has it
		for _, m := range all {
			rl, _ := deref(m.(J))["required"].([]interface{})
			for _, x := range rl {
				name := fmt.Sprint(x)
				if _, has := out[name]; has {
					continue
				}
				for _, m2 := range all {
					if ps, ok := deref(m2.(J))["properties"].(J); ok {
						if sch, ok := ps[name].(J); ok {
							out[name] = g.value(sch, depth-1)
							for try := 0; out[name] == nil && try < 10; try++ { // present with a value
								out[name] = g.value(sch, depth-1)
							}
							break
						}
					}
				}
			}
		}
		return out
	}
	if one, ok := s["oneOf"].([]interface{}); ok {
		mv := g.value(one[r.Intn(len(one))].(J), depth)
		if _, has := s["properties"]; has {
			// a union with members of its own: the chosen member's fields plus the union's own (and additional) ones
			own := J{}
			for k, v := range s {
				if k != "oneOf" {
					own[k] = v
				}
			}
			mo, ok1 := mv.(map[string]interface{})
			oo, ok2 := g.value(own, depth).(map[string]interface{})
			if ok1 && ok2 {
				for k, v := range oo {
					mo[k] = v
				}
			}
		}
		return mv
	}
	if en, ok := s["enum"].([]interface{}); ok {
		return en[r.Intn(len(en))]
	}
	switch s["type"] {
	case "string":
		switch s["format"] {
		case "date":
			return r.Pick([]string{"2021-02-03", "1999-12-31", "2024-02-29"})
		case "date-time":
			return r.Pick([]string{"2021-02-03T04:05:06Z", "1999-12-31T23:59:59.123Z", "2024-02-29T12:00:00+02:00"})
		case "uuid":
			return r.Pick([]string{"123e4567-e89b-12d3-a456-426614174000", "00000000-0000-0000-0000-000000000000"})
		case "email":
			return "a.b@example.com"
		}
		v := r.Pick(c07Strings)
		if v == "" {
			g.mark("empty-string")
		}
		return v
	case "integer":
		switch s["format"] {
		case "int32":
			return json.Number(r.Pick([]string{"0", "1", "-1", "2147483647", "-2147483648"}))
		case "int8":
			return json.Number(r.Pick([]string{"0", "127", "-128"}))
		case "int16":
			return json.Number(r.Pick([]string{"0", "32767", "-32768"}))
		case "uint8":
			return json.Number(r.Pick([]string{"0", "255"}))
		case "uint16":
			return json.Number(r.Pick([]string{"0", "65535"}))
		case "uint32":
			return json.Number(r.Pick([]string{"0", "4294967295"}))
		case "uint64", "uint":
			g.mark("uint64-extreme")
			return json.Number(r.Pick([]string{"0", "18446744073709551615", "9223372036854775808"}))
		case "int64", "int":
			g.mark("int64-extreme")
			return json.Number(r.Pick([]string{"0", "5", "9223372036854775807", "-9223372036854775808", "9007199254740993"}))
		}
		return json.Number(r.Pick([]string{"0", "42", "-7", "9007199254740993"}))
	case "number":
		if s["format"] == "double" {
			return json.Number(r.Pick([]string{"0", "1.5", "-0.125", "123456.789", "1e-7", "2.2250738585072014e-308"}))
		}
		// float32: values it represents exactly
		return json.Number(r.Pick([]string{"0", "1.5", "-0.25", "100", "3.25", "16777216"}))
	case "boolean":
		return r.Bool()
	case "array":
		n := r.Intn(3)
		if n == 0 {
			g.mark("empty-array")
		}
		out := []interface{}{}
		for i := 0; i < n && depth > 0; i++ {
			out = append(out, g.value(s["items"].(J), depth-1))
		}
		return out
	case "object":
		out := map[string]interface{}{}
		props, _ := s["properties"].(J)
		reqd := map[string]bool{}
		if rl, ok := s["required"].([]interface{}); ok {
			for _, x := range rl {
				reqd[fmt.Sprint(x)] = true
			}
		}
		for name, ps := range props {
			if reqd[name] || r.Chance(60) {
				out[name] = g.value(ps.(J), depth-1)
			} else {
				g.mark("optional-absent")
			}
		}
		switch ap := s["additionalProperties"].(type) {
		case bool:
			if ap && !g.noExtras && r.Chance(70) {
				g.mark("extra-members")
				out["extra_1"] = r.Pick([]string{"x", "y"})
				out["extra_2"] = []interface{}{json.Number("1"), map[string]interface{}{"deep": true}}
				// an additional member whose name differs from a declared one only in the case of its letters is
				// another member
				for _, name := range SortedKeys(props) {
					if up := strings.ToUpper(name); up != name && props[up] == nil && r.Chance(50) {
						g.mark("extra-member-differing-in-case-only")
						out[up] = "case variant of " + name
						break
					}
				}
			}
		case J:
			if !g.noExtras && r.Chance(70) {
				g.mark("extra-members")
				for i := 0; i < 1+r.Intn(2); i++ {
					out[fmt.Sprintf("extra_%d", i)] = g.value(ap, depth-1)
				}
			}
		}
		if len(out) == 0 {
			g.mark("empty-object")
		}
		return out
	}
	return nil
}

// ---------- comparison ----------

// c07Equal: semantic equality of two decoded JSON values (numbers by value); returns the first difference.
// Permitted: a member absent from the input may appear as null in the output.
func c07Equal(in, out interface{}, path string) string {
	switch a := in.(type) {
	case map[string]interface{}:
		b, ok := out.(map[string]interface{})
		if !ok {
			return fmt.Sprintf("%s: object became %s", path, short(out))
		}
		for k, v := range a {
			w, ok := b[k]
			if !ok {
				if v == nil {
					return fmt.Sprintf("%s.%s: explicit null lost", path, k)
				}
				return fmt.Sprintf("%s.%s: member lost", path, k)
			}
			if d := c07Equal(v, w, path+"."+k); d != "" {
				return d
			}
		}
		for k, w := range b {
			if _, ok := a[k]; !ok && w != nil {
				return fmt.Sprintf("%s.%s: member invented (%s)", path, k, short(w))
			} else if !ok {
				c07AbsentAsNull = append(c07AbsentAsNull, path+"."+k)
			}
		}
		return ""
	case []interface{}:
		b, ok := out.([]interface{})
		if !ok {
			if str, isStr := out.(string); isStr {
				// []uint8 is []byte: encoding/json writes it as base64
				if raw, err := base64.StdEncoding.DecodeString(str); err == nil && len(raw) == len(a) {
					same := true
					for i := range a {
						n, isNum := a[i].(json.Number)
						if !isNum || string(n) != fmt.Sprint(int(raw[i])) {
							same = false
						}
					}
					if same {
						return fmt.Sprintf("%s: byte array became base64 string %q", path, str)
					}
				}
			}
			if len(a) == 0 && out == nil {
				return fmt.Sprintf("%s: empty array became null", path)
			}
			return fmt.Sprintf("%s: array became %s", path, short(out))
		}
		if len(a) != len(b) {
			return fmt.Sprintf("%s: array length %d became %d", path, len(a), len(b))
		}
		for i := range a {
			if d := c07Equal(a[i], b[i], fmt.Sprintf("%s[%d]", path, i)); d != "" {
				return d
			}
		}
		return ""
	case json.Number:
		b, ok := out.(json.Number)
		if !ok {
			return fmt.Sprintf("%s: number %s became %s", path, a, short(out))
		}
		x, _, e1 := big.ParseFloat(string(a), 10, 200, big.ToNearestEven)
		y, _, e2 := big.ParseFloat(string(b), 10, 200, big.ToNearestEven)
		if e1 != nil || e2 != nil || x.Cmp(y) != 0 {
			return fmt.Sprintf("%s: number %s became %s", path, a, b)
		}
		return ""
	case string:
		b, ok := out.(string)
		if !ok || a != b {
			// date-time values may be re-rendered in another but equal form
			if ok && sameInstant(a, b) {
				return ""
			}
			return fmt.Sprintf("%s: string %q became %s", path, a, short(out))
		}
		return ""
	case nil:
		if out != nil {
			return fmt.Sprintf("%s: null became %s", path, short(out))
		}
		return ""
	default:
		if fmt.Sprint(in) != fmt.Sprint(out) {
			return fmt.Sprintf("%s: %v became %s", path, in, short(out))
		}
		return ""
	}
}

// c07AbsentAsNull: the paths of members absent from the input that the output carries as null (filled by c07Equal;
// tolerated only where the member is nullable)
var c07AbsentAsNull []string

func short(v interface{}) string {
	b, _ := json.Marshal(v)
	if len(b) > 60 {
		return string(b[:60]) + "…"
	}
	return string(b)
}

func decodeNum(s string) (interface{}, error) {
	d := json.NewDecoder(bytes.NewReader([]byte(s)))
	d.UseNumber()
	var v interface{}
	err := d.Decode(&v)
	return v, err
}

func diffClass(d string) string {
	// the kind of difference without path and values
	i := strings.Index(d, ": ")
	if i < 0 {
		return "other"
	}
	rest := d[i+2:]
	for _, k := range []string{"byte array became base64 string", "absent non-nullable member became null", "explicit null of a required member lost", "explicit null lost", "member lost", "member invented", "empty array became null", "array length", "number", "string", "null became", "object became", "array became"} {
		if strings.HasPrefix(rest, k) {
			return strings.ReplaceAll(k, " ", "-")
		}
	}
	return "other"
}

func runC07(ctx *Ctx) error {
	ctx.Res.Rule = "seeded component schemas (objects with required/optional/nullable/readOnly/writeOnly members, nested and referenced objects, arrays, maps, additionalProperties true/false/schema, allOf, oneOf, every handled format incl. the ten integer formats with their extremes, enums; fixed shapes FixA–FixI, a base tightened by a composition declared before it) x nullable-type on/off x compatibility flags, compiled (models only); schema-directed valid instances incl. boundary values (empty arrays/objects/strings, explicit nulls, int64 extremes, 2^53+1, float32-exact and float64 edge decimals, escaped and non-ASCII strings, extra members where additionalProperties is declared, also one that differs from a declared member in case only; the input buffer is overwritten after decoding) decoded into the generated type and encoded again; semantic JSON equality, the only tolerated difference an absent *nullable* member reappearing as null; CORR of encoding/json with Model/GoJson.lean in both directions on reflect-built types (integers of every width); non-trivial = every (schema, instance) Session 9: an instance with additional members decoded into a value that has just held another document (structs); disable-type-aliases-for-type with other type names in half of the documents; fixed shape A1Alias."
	if err := corrGoJSON(ctx, ctx.N(4000, 60000)); err != nil {
		return err
	}
	kit, err := NewRunKit(ctx.Work)
	if err != nil {
		return err
	}
	defer kit.Close()
	nd := ctx.N(16, 160)
	ni := ctx.N(30, 120)
	type dc struct {
		doc  J
		p    *RunPkg
		mode string
		r    *Rng
	}
	var docs []dc
	stats := map[string]int{}
	for d := 0; d < nd; d++ {
		r := ctx.Rng.Fork()
		g := &c07Gen{r: r, stats: stats}
		doc := g.doc()
		var cfg codegen.Configuration
		cfg.Generate.Models = true
		cfg.OutputOptions.SkipPrune = true
		cfg.OutputOptions.NullableType = d%2 == 1
		if d%5 == 4 {
			cfg.Compatibility.DisableFlattenAdditionalProperties = true
		}
		if d%7 == 6 {
			cfg.Compatibility.DisableRequiredReadOnlyAsPointer = true
		}
		if d%6 == 5 {
			cfg.Compatibility.OldAliasing = true
		}
		if d%2 == 0 {
			// the option is documented for arrays; other type names in the list are without effect
			cfg.OutputOptions.DisableTypeAliasesForType = []string{"array", "object", "string", "integer"}
		}
		mode := fmt.Sprintf("nullable-type=%v", cfg.OutputOptions.NullableType)
		if cfg.Compatibility.OldAliasing {
			mode += ",old-aliasing"
		}
		if cfg.Compatibility.DisableFlattenAdditionalProperties {
			mode += ",no-flatten"
		}
		if cfg.Compatibility.DisableRequiredReadOnlyAsPointer {
			mode += ",ro-no-pointer"
		}
		if len(cfg.OutputOptions.DisableTypeAliasesForType) > 0 {
			mode += ",no-array-aliases"
		}
		p := kit.Add(&RunPkg{Name: fmt.Sprintf("c07_%d", d), Doc: doc, Cfg: cfg})
		docs = append(docs, dc{doc, p, mode, r.Fork()})
	}
	kit.Prepare()
	for k, v := range stats {
		ctx.Res.Distribution["schema:"+k] += v
	}
	for _, d := range docs {
		replayDoc := J{"doc": d.doc, "cfg": d.p.Cfg}
		if d.p.GenErr != nil {
			ctx.Res.Violate("generate-error:"+errorClass(d.p.GenErr.Error()), "generation fails: "+firstLine(d.p.GenErr.Error()), replayDoc)
			continue
		}
		if d.p.BuildErr != "" {
			ctx.Res.Violate("compile:"+errorClass(d.p.BuildErr), "the generated models do not compile: "+firstLines(d.p.BuildErr, 2), replayDoc)
			continue
		}
		schemas := d.doc["components"].(J)["schemas"].(J)
		names := SortedKeys(schemas)
		for i := 0; i < ni; i++ {
			name := names[i%len(names)]
			ig := &c07Inst{r: d.r, schemas: schemas, classes: map[string]bool{}}
			v := ig.value(schemas[name].(J), 3)
			data, _ := json.Marshal(v)
			req := J{"do": "json", "type": name, "data": string(data)}
			// an instance with additional members is also decoded into a value that has just held another document with
			// other additional members (a decoder loop, a pooled value): the members of the earlier document are gone
			reused := false
			if sch, ok := schemas[name].(J); ok {
				if vo, isObj := v.(map[string]interface{}); isObj && sch["additionalProperties"] != nil && sch["additionalProperties"] != false {
					props, _ := sch["properties"].(J)
					first := map[string]interface{}{}
					for k, x := range vo {
						first[k] = x
						if _, declared := props[k]; !declared {
							first[k+"_zzfirst"] = x
							reused = true
						}
					}
					// (an object without declared members is a Go map, and encoding/json itself adds to a map that is there)
					if reused && len(props) > 0 && sch["allOf"] == nil && sch["oneOf"] == nil && sch["anyOf"] == nil {
						fb, _ := json.Marshal(first)
						req["first"] = string(fb)
					} else {
						reused = false
					}
				}
			}
			resp, err := d.p.Call(req)
			if err != nil {
				return err
			}
			if or, ok := resp["out_reused"].(string); ok && reused {
				ctx.Res.Count("instance:decoded-into-a-used-value")
				if o1, _ := resp["out"].(string); !jsonEqualExact(or, o1) {
					ctx.Res.Violate("reused-value:"+d.mode, fmt.Sprintf("%s decoded into a value that held another document before is encoded as %s; decoded into a fresh value, as %s", string(data), or, o1),
						J{"doc": d.doc, "cfg": d.p.Cfg, "type": name, "instance": string(data), "first": req["first"]})
				}
			}
			ctx.Res.Eval(J{"doc": Hash(d.doc), "type": name, "instance": Hash(string(data))}, true)
			ctx.Res.Count("mode:" + d.mode)
			for c := range ig.classes {
				ctx.Res.Count("instance:" + c)
			}
			replay := J{"doc": d.doc, "cfg": d.p.Cfg, "type": name, "instance": string(data)}
			if e, ok := resp["unmarshal_err"].(string); ok {
				ctx.Res.Violate("decode-error:"+d.mode+":"+errorClass(e), fmt.Sprintf("a valid instance of %s is rejected: %s", name, e), replay)
				continue
			}
			if e, ok := resp["marshal_err"].(string); ok {
				ctx.Res.Violate("encode-error:"+d.mode+":"+errorClass(e), fmt.Sprintf("%s cannot be encoded again: %s", name, e), replay)
				continue
			}
			out, _ := resp["out"].(string)
			in1, _ := decodeNum(string(data))
			out1, err := decodeNum(out)
			if err != nil {
				ctx.Res.Violate("output-not-json:"+d.mode, "the re-encoded value is not JSON", replay)
				continue
			}
			c07AbsentAsNull = nil
			diff := c07Equal(in1, out1, "$")
			if diff == "" {
				// the one permitted difference is an absent optional *nullable* member reappearing as null
				for _, p := range c07AbsentAsNull {
					if c07NonNullableAt(schemas, schemas[name].(J), strings.TrimPrefix(p, "$")) {
						diff = p + ": absent non-nullable member became null"
						break
					}
				}
			}
			if diff != "" {
				if strings.HasSuffix(diff, "explicit null lost") && c07RequiredAt(schemas, schemas[name].(J), strings.TrimSuffix(strings.TrimPrefix(diff, "$"), ": explicit null lost")) {
					diff = strings.Replace(diff, "explicit null lost", "explicit null of a required member lost", 1)
				}
				var cls []string
				for c := range ig.classes {
					cls = append(cls, c)
				}
				sort.Strings(cls)
				ctx.Res.Violate("roundtrip:"+d.mode+":"+diffClass(diff), fmt.Sprintf("%s: %s  (instance %s => %s)", name, diff, clip(string(data), 200), clip(out, 200)), replay)
			}
		}
	}
	return nil
}

func clip(s string, n int) string {
	if len(s) > n {
		return s[:n] + "…"
	}
	return s
}

func init() {
	register("c07", runC07)
	register("c07json", func(ctx *Ctx) error { return corrGoJSON(ctx, ctx.N(4000, 60000)) })
}

func sameInstant(a, b string) bool {
	ta, e1 := time.Parse(time.RFC3339Nano, a)
	tb, e2 := time.Parse(time.RFC3339Nano, b)
	return e1 == nil && e2 == nil && ta.Equal(tb)
}

// c07NonNullableAt: does every schema that declares the member at the path declare it, and none of them as nullable?
// (false when the path cannot be resolved to declared members only: additional members, untyped positions)
func c07NonNullableAt(schemas J, root J, path string) bool {
	deref := func(s J) J {
		for s != nil {
			ref, ok := s["$ref"].(string)
			if !ok {
				return s
			}
			s, _ = schemas[strings.TrimPrefix(ref, "#/components/schemas/")].(J)
		}
		return s
	}
	var segs []string
	for _, p := range strings.Split(strings.ReplaceAll(path, "[", ".["), ".") {
		if p != "" {
			segs = append(segs, p)
		}
	}
	candidates := []J{root}
	for _, seg := range segs {
		var next []J
		for _, c := range candidates {
			c = deref(c)
			if c == nil {
				return false
			}
			objs := []J{c}
			for _, key := range []string{"allOf", "oneOf", "anyOf"} {
				if l, ok := c[key].([]interface{}); ok {
					for _, m := range l {
						if mj := deref(m.(J)); mj != nil {
							objs = append(objs, mj)
						}
					}
				}
			}
			for _, o := range objs {
				if strings.HasPrefix(seg, "[") {
					if it, ok := o["items"].(J); ok {
						next = append(next, it)
					}
					continue
				}
				if props, ok := o["properties"].(J); ok {
					if ps, ok := props[seg].(J); ok {
						next = append(next, ps)
						continue
					}
				}
				if _, ok := o["additionalProperties"]; ok {
					return false // may be an additional member
				}
			}
		}
		candidates = next
	}
	if len(candidates) == 0 {
		return false
	}
	for _, c := range candidates {
		c = deref(c)
		if c == nil {
			return false
		}
		if n, _ := c["nullable"].(bool); n {
			return false
		}
	}
	return true
}

// c07RequiredAt: is the member at the path (".a.b[0].c") listed as required by the object schema that declares it?
func c07RequiredAt(schemas J, root J, path string) bool {
	deref := func(s J) J {
		for s != nil {
			ref, ok := s["$ref"].(string)
			if !ok {
				return s
			}
			s, _ = schemas[strings.TrimPrefix(ref, "#/components/schemas/")].(J)
		}
		return s
	}
	var segs []string
	for _, p := range strings.Split(strings.ReplaceAll(path, "[", ".["), ".") {
		if p != "" {
			segs = append(segs, p)
		}
	}
	var candidates []J
	candidates = append(candidates, root)
	for i, seg := range segs {
		var next []J
		last := i == len(segs)-1
		for _, c := range candidates {
			c = deref(c)
			if c == nil {
				continue
			}
			var objs []J
			objs = append(objs, c)
			for _, key := range []string{"allOf", "oneOf", "anyOf"} {
				if l, ok := c[key].([]interface{}); ok {
					for _, m := range l {
						if mj := deref(m.(J)); mj != nil {
							objs = append(objs, mj)
						}
					}
				}
			}
			for _, o := range objs {
				if strings.HasPrefix(seg, "[") {
					if it, ok := o["items"].(J); ok {
						next = append(next, it)
					}
					continue
				}
				if props, ok := o["properties"].(J); ok {
					if ps, ok := props[seg].(J); ok {
						if last {
							if rl, ok := o["required"].([]interface{}); ok {
								for _, x := range rl {
									if fmt.Sprint(x) == seg {
										return true
									}
								}
							}
						}
						next = append(next, ps)
						continue
					}
				}
				if ap, ok := o["additionalProperties"].(J); ok {
					next = append(next, ap)
				}
			}
		}
		candidates = next
	}
	return false
}
