package main

import (
	"strings"
	"unicode"
	"unicode/utf8"

	"github.com/oapi-codegen/oapi-codegen/v2/pkg/codegen"
)

// In-process correspondence of Model/Names.lean with pkg/codegen/utils.go.

func cps(s string) []int {
	out := []int{}
	for _, r := range s {
		out = append(out, int(r))
	}
	return out
}

func fromCps(c []int) string {
	var sb strings.Builder
	for _, r := range c {
		sb.WriteRune(rune(r))
	}
	return sb.String()
}

// uniTable: Go's unicode classes for the non-ASCII runes of s (and their case images).
func uniTable(s string) [][4]int {
	seen := map[rune]bool{}
	var out [][4]int
	var add func(r rune)
	add = func(r rune) {
		if r < 128 || seen[r] {
			return
		}
		seen[r] = true
		bits := 0
		if unicode.IsUpper(r) {
			bits |= 1
		}
		if unicode.IsLower(r) {
			bits |= 2
		}
		if unicode.IsDigit(r) {
			bits |= 4
		}
		if unicode.IsLetter(r) {
			bits |= 8
		}
		if unicode.IsNumber(r) {
			bits |= 16
		}
		out = append(out, [4]int{int(r), bits, int(unicode.ToUpper(r)), int(unicode.ToLower(r))})
		add(unicode.ToUpper(r))
		add(unicode.ToLower(r))
	}
	for _, r := range s {
		add(r)
	}
	return out
}

var nameAtoms = []string{"a", "b", "Z", "foo", "Bar", "HTTP", "http", "id", "Id", "api", "json", "Json", "url", "https", "uuid", "0", "1", "42",
	"-", "#", "@", "!", "$", "&", "=", ".", "+", ":", ";", "_", "~", " ", "(", ")", "{", "}", "[", "]", "|", "*", "^", "%", "/", "\\", "\"", "'", "<", ",", "?",
	"é", "É", "ß", "ǆ", "ǅ", "日", "本", "Ж", "ж", "²", "Ⅷ", "٣", "५", "́", "😀", "ı", "İ",
	"type", "func", "string", "error", "nil", "len", "map", "break"}

func genName(r *Rng) string {
	n := r.Intn(5)
	if r.Chance(10) {
		return nameAtoms[r.Intn(len(nameAtoms))]
	}
	var sb strings.Builder
	for i := 0; i < n; i++ {
		sb.WriteString(nameAtoms[r.Intn(len(nameAtoms))])
	}
	return sb.String()
}

type namesOut struct {
	Camel, CamelDigits, Prefix, TypeName, Sanitize, UcFirst, LcFirst, LowerFirsts, Initialism, MediaType []int
}

func corrNames(ctx *Ctx) error {
	n := ctx.N(4000, 60000)
	for i := 0; i < n; i++ {
		r := ctx.Rng.Fork()
		s := genName(r)
		if !utf8.ValidString(s) {
			continue
		}
		norm := []string{"ToCamelCase", "ToCamelCaseWithDigits"}[r.Intn(2)]
		var m struct {
			Camel       []int `json:"camel"`
			CamelDigits []int `json:"camelDigits"`
			Prefix      []int `json:"prefix"`
			TypeName    []int `json:"typeName"`
			Sanitize    []int `json:"sanitize"`
			UcFirst     []int `json:"ucFirst"`
			LcFirst     []int `json:"lcFirst"`
			LowerFirsts []int `json:"lowerFirsts"`
			Initialism  []int `json:"initialism"`
			MediaType   []int `json:"mediaType"`
		}
		if err := ctx.Model(map[string]interface{}{"fn": "names", "s": cps(s), "uni": uniTable(s + strings.ToUpper(s) + strings.ToLower(s)), "norm": norm}, &m); err != nil {
			return err
		}
		ctx.Res.Evaluations++
		ctx.Res.Distribution["corr:names"]++
		cmp := func(what string, model []int, impl string) {
			if fromCps(model) != impl {
				ctx.Res.Disagree("CORR "+what+" (Model/Names.lean vs pkg/codegen/utils.go)", J{"s": s, "norm": norm}, fromCps(model), impl)
			}
		}
		cmp("toCamelCase", m.Camel, codegen.ToCamelCase(s))
		cmp("toCamelCaseWithDigits", m.CamelDigits, codegen.ToCamelCaseWithDigits(s))
		cmp("typeNamePrefix", m.Prefix, codegen.VerifTypeNamePrefix(s))
		codegen.VerifSetNameNormalizer(norm)
		cmp("schemaNameToTypeName", m.TypeName, codegen.SchemaNameToTypeName(s))
		codegen.VerifSetNameNormalizer("")
		var san string
		panicked := false
		func() {
			defer func() {
				if recover() != nil {
					panicked = true
				}
			}()
			san = codegen.SanitizeGoIdentity(s)
		}()
		if panicked {
			ctx.Res.Violate("sanitize-panics:"+s, "SanitizeGoIdentity panics on "+s, J{"s": s})
		} else {
			cmp("sanitizeGoIdentity", m.Sanitize, san)
		}
		cmp("ucFirst", m.UcFirst, codegen.UppercaseFirstCharacter(s))
		cmp("lcFirst", m.LcFirst, codegen.LowercaseFirstCharacter(s))
		cmp("lowercaseFirstCharacters", m.LowerFirsts, codegen.LowercaseFirstCharacters(s))
		if isASCII(s) {
			cmp("replaceInitialism", m.Initialism, codegen.VerifReplaceInitialism(s))
			cmp("mediaTypeToCamelCase", m.MediaType, codegen.VerifMediaTypeToCamelCase(s))
		}
	}
	return nil
}

func init() {
	register("corr-names", func(ctx *Ctx) error { return corrNames(ctx) })
}
