package main

import (
	"fmt"
	"sort"
	"strings"
	"text/template"

	"github.com/getkin/kin-openapi/openapi3"
	"github.com/oapi-codegen/oapi-codegen/v2/pkg/codegen"
)

func bytesOf(s string) []int {
	out := make([]int, 0, len(s))
	for _, b := range []byte(s) {
		out = append(out, int(b))
	}
	return out
}

func strOfBytes(v []int) string {
	b := make([]byte, len(v))
	for i, x := range v {
		b[i] = byte(x)
	}
	return string(b)
}

// corrTypeDedup: codegen.GenerateTypes (the gate that writes every collected type definition once) vs
// Model/TypeDedup.lean on seeded definition lists over few names (so that repeats, equal and differing, are frequent).
// The real function runs with a template of its own that prints the names it is handed, in order. On the result the
// statement itself is checked too: no name twice, nothing dropped, refusal only for a genuine clash.
func corrTypeDedup(ctx *Ctx, n int) error {
	t := template.Must(template.New("x").Parse(`{{define "typedef.tmpl"}}{{range .Types}}{{.TypeName}}={{.Schema.OAPISchema.Description}};{{end}}{{end}}`))
	bt := template.Must(template.New("y").Parse(`{{define "additional-properties.tmpl"}}{{range .Types}}{{.TypeName}};{{end}}{{end}}{{define "union.tmpl"}}{{range .Types}}{{.TypeName}};{{end}}{{end}}{{define "union-and-additional-properties.tmpl"}}{{range .Types}}{{.TypeName}};{{end}}{{end}}`))
	names := []string{"Pet", "Pets", "Error", "N200", "Überraschung"}
	for i := 0; i < n; i++ {
		r := ctx.Rng.Fork()
		k := r.Intn(7)
		nb := 1 + r.Intn(3)
		var tds []codegen.TypeDefinition
		var enc []interface{}
		for j := 0; j < k; j++ {
			nm := names[r.Intn(len(names))]
			body := r.Intn(nb)
			// the schema DeepEqual compares: a fresh object per definition, equal exactly when `body` is
			// body 1 has additional properties, bodies 1 and 2 are unions
			sch := codegen.Schema{GoType: "int", OAPISchema: &openapi3.Schema{Description: fmt.Sprint(body)}, HasAdditionalProperties: body == 1}
			if body >= 1 {
				sch.UnionElements = []codegen.UnionElement{"string"}
			}
			tds = append(tds, codegen.TypeDefinition{TypeName: nm, JsonName: nm, Schema: sch})
			enc = append(enc, append([]int{body}, bytesOf(nm)...))
		}
		if enc == nil {
			enc = []interface{}{}
		}
		before := fmt.Sprint(len(tds))
		got, err := codegen.GenerateTypes(t, tds)
		_ = before
		var m struct {
			Ok    []int   `json:"ok"`
			Error []int   `json:"error"`
			Addl  [][]int `json:"addl"`
			Union [][]int `json:"union"`
			Both  [][]int `json:"both"`
		}
		if e := ctx.Model(J{"fn": "genTypes", "types": enc, "needAddl": []int{1}, "needUnion": []int{1, 2}, "needBoth": []int{1}}, &m); e != nil {
			return e
		}
		// the methods: each boilerplate generator vs TypeDedup.boilerplate, and (when the declarations are accepted)
		// vs the declarations themselves — a method for every declared type that needs it, once
		join := func(rows [][]int) string {
			var b strings.Builder
			for _, r := range rows {
				b.WriteString(strOfBytes(r) + ";")
			}
			return b.String()
		}
		for _, g := range []struct {
			name  string
			fn    func(*template.Template, []codegen.TypeDefinition) (string, error)
			model string
			needs func(int) bool
		}{
			{"GenerateAdditionalPropertyBoilerplate", codegen.GenerateAdditionalPropertyBoilerplate, join(m.Addl), func(b int) bool { return b == 1 }},
			{"GenerateUnionBoilerplate", codegen.GenerateUnionBoilerplate, join(m.Union), func(b int) bool { return b >= 1 }},
			{"GenerateUnionAndAdditionalProopertiesBoilerplate", codegen.GenerateUnionAndAdditionalProopertiesBoilerplate, join(m.Both), func(b int) bool { return b == 1 }},
		} {
			out, gerr := g.fn(bt, tds)
			if gerr != nil {
				out = "error: " + gerr.Error()
			}
			if out != g.model {
				ctx.Res.Disagree("CORR "+g.name+" vs TypeDedup.boilerplate", J{"types": enc}, g.model, out)
			}
			if err == nil && m.Error == nil {
				// the declarations GenerateTypes accepted: first definition of every name
				seen := map[string]bool{}
				want := ""
				for _, td := range tds {
					if seen[td.TypeName] {
						continue
					}
					seen[td.TypeName] = true
					var bd int
					fmt.Sscan(td.Schema.OAPISchema.Description, &bd)
					if g.needs(bd) {
						want += td.TypeName + ";"
					}
				}
				if out != want {
					ctx.Res.Violate("generate-types:methods:"+g.name, fmt.Sprintf("%s generates methods for [%s]; the declared types that need them are [%s]", g.name, out, want), J{"types": enc})
				}
			}
		}
		c := J{"types": enc}
		ctx.Res.Eval(c, k > 1)
		ctx.Res.Count("corr:generate-types")
		implS, modelS := "", ""
		if err != nil {
			implS = "error"
			ctx.Res.Count("corr:generate-types:refused")
		} else {
			implS = got
		}
		if m.Error != nil {
			modelS = "error"
			if err != nil && !strings.Contains(err.Error(), "'"+strOfBytes(m.Error)+"'") {
				ctx.Res.Disagree("CORR GenerateTypes vs TypeDedup.generateTypes (name in the error)", c, strOfBytes(m.Error), err.Error())
			}
		} else {
			// the order and the bodies come from the model, the names from the input
			seen := map[string]bool{}
			var b strings.Builder
			idx := 0
			for _, td := range tds {
				if seen[td.TypeName] {
					continue
				}
				seen[td.TypeName] = true
				if idx < len(m.Ok) {
					fmt.Fprintf(&b, "%s=%d;", td.TypeName, m.Ok[idx])
				}
				idx++
			}
			if idx != len(m.Ok) {
				b.WriteString("<length>")
			}
			modelS = b.String()
		}
		if implS != modelS {
			ctx.Res.Disagree("CORR GenerateTypes vs TypeDedup.generateTypes", c, modelS, implS)
		}
		// the statement, on the real result alone
		clash := false
		first := map[string]string{}
		for _, td := range tds {
			d := td.Schema.OAPISchema.Description
			if p, ok := first[td.TypeName]; ok && p != d {
				clash = true
			} else if !ok {
				first[td.TypeName] = d
			}
		}
		if clash != (err != nil) {
			ctx.Res.Violate("generate-types:refusal", fmt.Sprintf("GenerateTypes on %v: two differing definitions of one name = %v, refused = %v", enc, clash, err != nil), c)
		}
		if err == nil {
			parts := strings.Split(strings.TrimSuffix(got, ";"), ";")
			if got == "" {
				parts = nil
			}
			declared := map[string]int{}
			for _, p := range parts {
				declared[strings.SplitN(p, "=", 2)[0]]++
			}
			for nm, cnt := range declared {
				if cnt != 1 {
					ctx.Res.Violate("generate-types:declared-twice", fmt.Sprintf("GenerateTypes hands %s to the template %d times", nm, cnt), c)
				}
			}
			for nm := range first {
				if declared[nm] == 0 {
					ctx.Res.Violate("generate-types:dropped", fmt.Sprintf("GenerateTypes drops the definition of %s", nm), c)
				}
			}
		}
	}
	return nil
}

// corrImportMap: constructImportMapping vs TypeDedup.construct on seeded mappings (few package paths so that documents
// share packages; paths that are prefixes of one another; "-" for the current package), and the statement on the
// real result: one name per package path, different paths different names.
func corrImportMap(ctx *Ctx, n int) error {
	docs := []string{"a.yaml", "b.yaml", "../common/c.yaml", "https://example.com/d.json", "e.yaml", "f.yaml"}
	pkgs := []string{"example.com/x/pkg", "example.com/x/pkg2", "example.com/x", "-", "example.com/a", "zz/é", "Example.com/x"}
	for i := 0; i < n; i++ {
		r := ctx.Rng.Fork()
		m := map[string]string{}
		for _, d := range docs {
			if r.Chance(60) {
				m[d] = pkgs[r.Intn(len(pkgs))]
			}
		}
		var keys []string
		for d := range m {
			keys = append(keys, d)
		}
		sort.Strings(keys)
		// the model is handed the mapping in a seeded order (its theorem says the order is irrelevant)
		perm := r.Perm(len(keys))
		enc := []interface{}{}
		for _, pi := range perm {
			enc = append(enc, [][]int{bytesOf(keys[pi]), bytesOf(m[keys[pi]])})
		}
		got := codegen.VerifConstructImportMapping(m)
		var mo [][][]int
		if e := ctx.Model(J{"fn": "importMap", "mapping": enc}, &mo); e != nil {
			return e
		}
		c := J{"mapping": m}
		ctx.Res.Eval(c, len(m) > 1)
		ctx.Res.Count("corr:import-mapping")
		model := map[string][2]string{}
		for _, row := range mo {
			model[strOfBytes(row[0])] = [2]string{strOfBytes(row[1]), strOfBytes(row[2])}
		}
		if fmt.Sprint(model) != fmt.Sprint(got) {
			ctx.Res.Disagree("CORR constructImportMapping vs TypeDedup.construct", c, fmt.Sprint(model), fmt.Sprint(got))
		}
		byName, byPath := map[string]string{}, map[string]string{}
		for d, np := range got {
			if np[1] != m[d] {
				ctx.Res.Violate("import-mapping:path", fmt.Sprintf("document %s is mapped to %s, the generator imports %s", d, m[d], np[1]), c)
			}
			if p, ok := byName[np[0]]; ok && p != np[1] {
				ctx.Res.Violate("import-mapping:one-name-two-packages", fmt.Sprintf("packages %s and %s are both imported as %s", p, np[1], np[0]), c)
			}
			byName[np[0]] = np[1]
			if nm, ok := byPath[np[1]]; ok && nm != np[0] {
				ctx.Res.Violate("import-mapping:one-package-two-names", fmt.Sprintf("package %s is imported as %s and as %s", np[1], nm, np[0]), c)
			}
			byPath[np[1]] = np[0]
		}
		if len(got) != len(m) {
			ctx.Res.Violate("import-mapping:document-lost", fmt.Sprintf("%d documents mapped, %d in the result", len(m), len(got)), c)
		}
	}
	return nil
}
