package main

import (
	"fmt"
	"go/ast"
	"go/token"
	"os"
	"path/filepath"
	"reflect"
	"regexp"
	"sort"
	"strings"

	"github.com/oapi-codegen/oapi-codegen/v2/pkg/codegen"
)

// C08 — Go types follow the documented schema mapping. TAB: the generator is executed on every cell.

var c08Formats = []string{"", "int32", "int64", "int16", "int8", "int", "uint64", "uint32", "uint16", "uint8", "uint", "float", "double", "byte", "email", "date", "date-time", "json", "uuid", "binary", "x-unknown-format"}
var c08Types = []string{"integer", "number", "boolean", "string"}
var c08GoCode = map[string]string{"int": "int", "int8": "int8", "int16": "int16", "int32": "int32", "int64": "int64", "uint": "uint", "uint8": "uint8", "uint16": "uint16", "uint32": "uint32", "uint64": "uint64",
	"float32": "float32", "float64": "float64", "bool": "bool", "string": "string", "[]byte": "bytes", "openapi_types.Email": "email", "openapi_types.Date": "date", "time.Time": "time",
	"json.RawMessage": "rawjson", "openapi_types.UUID": "uuid", "openapi_types.File": "file"}

func c08Schema(doc J, name string, cfg codegen.Configuration) (codegen.Schema, error) {
	spec, err := loadDoc(doc)
	if err != nil {
		return codegen.Schema{}, fmt.Errorf("load: %w", err)
	}
	codegen.VerifSetOptions(cfg)
	codegen.SetGlobalStateSpec(spec)
	codegen.VerifSetNameNormalizer("")
	return codegen.GenerateGoSchema(spec.Components.Schemas[name], []string{name})
}

type c08TypeRow struct {
	Ty, Fmt int
	Got     string
}

func c08TypeRows() []c08TypeRow {
	var rows []c08TypeRow
	for ti, ty := range c08Types {
		for fi, f := range c08Formats {
			s := J{"type": ty}
			if f != "" {
				s["format"] = f
			}
			gs, err := c08Schema(wDoc(J{}, J{"schemas": J{"X": s}}), "X", codegen.Configuration{})
			got := "other"
			if err != nil {
				got = "error"
			} else if c, ok := c08GoCode[gs.GoType]; ok {
				got = c
			}
			rows = append(rows, c08TypeRow{ti, fi, got})
		}
	}
	return rows
}

type c08FieldRow struct {
	Required, Nullable, ReadOnly, WriteOnly bool
	SkipPtr, XOmit                          int
	JSONIgnore                              int // x-go-json-ignore: 0 unset, 1 true, 2 false
	NullableType, ROFlag                    bool
	GotPointer, GotWrap                     bool
	GotTag                                  int
	GotOmit                                 bool
	Line                                    string
}

var fieldLineRe = regexp.MustCompile("^\\s*(\\w+)\\s+(.*?)\\s*`(.*)`\\s*$")
var jsonTagRe = regexp.MustCompile(`json:"([^"]*)"`)

// parseField extracts (field name, type, json tag name, omitempty, other tags) from a generated struct line.
func parseField(line string) (name, typ, tagName string, omit bool, otherTags string, ok bool) {
	m := fieldLineRe.FindStringSubmatch(line)
	if m == nil {
		return
	}
	name, typ = m[1], m[2]
	jm := jsonTagRe.FindStringSubmatch(m[3])
	if jm == nil {
		return
	}
	parts := strings.Split(jm[1], ",")
	tagName = parts[0]
	for _, p := range parts[1:] {
		if p == "omitempty" {
			omit = true
		}
	}
	otherTags = strings.TrimSpace(jsonTagRe.ReplaceAllString(m[3], ""))
	ok = true
	return
}

func c08FieldCell(r c08FieldRow, member J) (c08FieldRow, error) {
	m := copyJ(member)
	if r.Nullable {
		m["nullable"] = true
	}
	if r.ReadOnly {
		m["readOnly"] = true
	}
	if r.WriteOnly {
		m["writeOnly"] = true
	}
	switch r.SkipPtr {
	case 1:
		m["x-go-type-skip-optional-pointer"] = true
	case 2:
		m["x-go-type-skip-optional-pointer"] = false
	}
	switch r.XOmit {
	case 1:
		m["x-omitempty"] = true
	case 2:
		m["x-omitempty"] = false
	}
	switch r.JSONIgnore {
	case 1:
		m["x-go-json-ignore"] = true
	case 2:
		m["x-go-json-ignore"] = false
	}
	obj := J{"type": "object", "properties": J{"m": m}}
	if r.Required {
		obj["required"] = []interface{}{"m"}
	}
	var cfg codegen.Configuration
	cfg.OutputOptions.NullableType = r.NullableType
	cfg.Compatibility.DisableRequiredReadOnlyAsPointer = r.ROFlag
	gs, err := c08Schema(wDoc(J{}, J{"schemas": J{"Obj": obj, "Other": J{"type": "object", "properties": J{"z": J{"type": "string"}}}}}), "Obj", cfg)
	if err != nil {
		return r, err
	}
	f, fset, perr := parseGo("package p\ntype T " + gs.GoType + "\n")
	if perr != nil {
		return r, fmt.Errorf("generated struct does not parse: %v: %q", perr, gs.GoType)
	}
	var st *ast.StructType
	ast.Inspect(f, func(n ast.Node) bool {
		if ts, ok := n.(*ast.TypeSpec); ok && ts.Name.Name == "T" {
			st, _ = ts.Type.(*ast.StructType)
			return false
		}
		return true
	})
	if st != nil {
		for _, fl := range st.Fields.List {
			if len(fl.Names) == 0 || fl.Names[0].Name != "M" || fl.Tag == nil {
				continue
			}
			typ := nodeStr(fset, fl.Type)
			tagS := strings.Trim(fl.Tag.Value, "`")
			r.Line = "M " + strings.SplitN(typ, "\n", 2)[0] + " `" + tagS + "`"
			r.GotPointer = strings.HasPrefix(typ, "*")
			r.GotWrap = strings.HasPrefix(typ, "nullable.Nullable[")
			jm := jsonTagRe.FindStringSubmatch(tagS)
			tag := ""
			if jm != nil {
				parts := strings.Split(jm[1], ",")
				tag = parts[0]
				for _, p := range parts[1:] {
					if p == "omitempty" {
						r.GotOmit = true
					}
				}
			}
			switch tag {
			case "m":
				r.GotTag = 0
			case "-":
				r.GotTag = 1
			default:
				r.GotTag = 2
			}
			return r, nil
		}
	}
	return r, fmt.Errorf("member field not found in %q", gs.GoType)
}

func c08FieldRows() ([]c08FieldRow, error) {
	var rows []c08FieldRow
	bools := []bool{false, true}
	for _, req := range bools {
		for _, nul := range bools {
			for _, ro := range bools {
				for _, wo := range bools {
					for sp := 0; sp < 3; sp++ {
						for xo := 0; xo < 3; xo++ {
							for ji := 0; ji < 3; ji++ {
								for _, nt := range bools {
									for _, rf := range bools {
										r, err := c08FieldCell(c08FieldRow{Required: req, Nullable: nul, ReadOnly: ro, WriteOnly: wo, SkipPtr: sp, XOmit: xo, JSONIgnore: ji, NullableType: nt, ROFlag: rf}, J{"type": "string"})
										if err != nil {
											return nil, err
										}
										rows = append(rows, r)
									}
								}
							}
						}
					}
				}
			}
		}
	}
	return rows, nil
}

// ---- extensions ----

type declView struct {
	Types   map[string]string      // type name -> rendered type expression (structs: "struct")
	Fields  map[string][]fieldView // struct type -> fields in order
	Imports []string
	Consts  []string
}
type fieldView struct {
	Name, Type, TagName, Other, Doc string
	Omit, Pointer                   bool
}

func viewOf(src string) (*declView, error) {
	f, fset, err := parseGo(src)
	if err != nil {
		return nil, err
	}
	v := &declView{Types: map[string]string{}, Fields: map[string][]fieldView{}}
	for _, im := range f.Imports {
		s := im.Path.Value
		if im.Name != nil {
			s = im.Name.Name + " " + s
		}
		v.Imports = append(v.Imports, s)
	}
	sort.Strings(v.Imports)
	for _, d := range f.Decls {
		gd, ok := d.(*ast.GenDecl)
		if !ok {
			continue
		}
		for _, s := range gd.Specs {
			switch x := s.(type) {
			case *ast.ValueSpec:
				if gd.Tok == token.CONST {
					for _, n := range x.Names {
						v.Consts = append(v.Consts, n.Name)
					}
				}
			case *ast.TypeSpec:
				if st, ok := x.Type.(*ast.StructType); ok {
					v.Types[x.Name.Name] = "struct"
					for _, fl := range st.Fields.List {
						if len(fl.Names) == 0 || fl.Tag == nil {
							continue
						}
						typ := nodeStr(fset, fl.Type)
						tag := strings.Trim(fl.Tag.Value, "`")
						fv := fieldView{Name: fl.Names[0].Name, Type: strings.TrimPrefix(typ, "*"), Pointer: strings.HasPrefix(typ, "*")}
						if jm := jsonTagRe.FindStringSubmatch(tag); jm != nil {
							parts := strings.Split(jm[1], ",")
							fv.TagName = parts[0]
							for _, p := range parts[1:] {
								if p == "omitempty" {
									fv.Omit = true
								}
							}
						}
						fv.Other = strings.TrimSpace(jsonTagRe.ReplaceAllString(tag, ""))
						if fl.Doc != nil {
							fv.Doc = fl.Doc.Text()
						}
						v.Fields[x.Name.Name] = append(v.Fields[x.Name.Name], fv)
					}
				} else {
					v.Types[x.Name.Name] = nodeStr(fset, x.Type)
				}
			}
		}
	}
	sort.Strings(v.Consts)
	return v, nil
}

type c08Ext struct {
	Name    string
	Base    J // property b (or the enum schema) without the extension
	Variant J
	Enum    bool
	BaseA   J // property a overrides (for x-order)
	VarA    J
}

func c08Exts() []c08Ext {
	intB := J{"type": "integer"}
	with := func(b J, k string, v interface{}) J { c := copyJ(b); c[k] = v; return c }
	objB := J{"type": "object", "properties": J{"q": J{"type": "string"}}}
	return []c08Ext{
		{Name: "x-go-type", Base: intB, Variant: with(intB, "x-go-type", "uint8")},
		{Name: "x-go-type-import", Base: with(intB, "x-go-type", "mytypes.T"), Variant: with(with(intB, "x-go-type", "mytypes.T"), "x-go-type-import", J{"path": "example.com/mytypes"})},
		{Name: "x-go-name", Base: intB, Variant: with(intB, "x-go-name", "Bee")},
		{Name: "x-go-type-name", Base: objB, Variant: with(objB, "x-go-type-name", "BeeType")},
		{Name: "x-go-type-skip-optional-pointer", Base: intB, Variant: with(intB, "x-go-type-skip-optional-pointer", true)},
		{Name: "x-omitempty", Base: intB, Variant: with(intB, "x-omitempty", false)},
		{Name: "x-go-json-ignore", Base: intB, Variant: with(intB, "x-go-json-ignore", true)},
		{Name: "x-order", Base: intB, Variant: with(intB, "x-order", 1), BaseA: J{"type": "string"}, VarA: J{"type": "string", "x-order": 2}},
		{Name: "x-oapi-codegen-extra-tags", Base: intB, Variant: with(intB, "x-oapi-codegen-extra-tags", J{"validate": "min=1"})},
		{Name: "x-enum-varnames", Enum: true, Base: J{"type": "string", "enum": []interface{}{"x", "y"}}, Variant: J{"type": "string", "enum": []interface{}{"x", "y"}, "x-enum-varnames": []interface{}{"Ex", "Why"}}},
		{Name: "x-deprecated-reason", Base: with(intB, "deprecated", true), Variant: with(with(intB, "deprecated", true), "x-deprecated-reason", "use c instead")},
	}
}

func c08ExtDoc(e c08Ext, variant bool) J {
	b, a := e.Base, e.BaseA
	if variant {
		b, a = e.Variant, e.VarA
	}
	if a == nil {
		a = J{"type": "string"}
	}
	schemas := J{}
	if e.Enum {
		schemas["Color"] = b
		schemas["Thing"] = J{"type": "object", "required": []interface{}{"a"}, "properties": J{"a": a, "b": J{"type": "integer"}, "c": J{"type": "boolean"}}}
	} else {
		// a member before and a member after the one that carries the extension
		schemas["Thing"] = J{"type": "object", "required": []interface{}{"a"}, "properties": J{"a": a, "b": b, "c": J{"type": "boolean"}}}
	}
	return wDoc(J{}, J{"schemas": schemas})
}

func c08View(doc J) (*declView, error) {
	spec, err := loadDoc(doc)
	if err != nil {
		return nil, err
	}
	var cfg codegen.Configuration
	cfg.PackageName = "api"
	cfg.Generate.Models = true
	cfg.OutputOptions.SkipPrune = true
	cfg.OutputOptions.SkipFmt = true
	src, err := generate(spec, cfg)
	if err != nil {
		return nil, err
	}
	return viewOf(src)
}

// c08ExtMask: which coordinates differ between the base and the variant document.
func c08ExtMask(e c08Ext) (int, string, error) {
	vb, err := c08View(c08ExtDoc(e, false))
	if err != nil {
		return 0, "", fmt.Errorf("%s base: %w", e.Name, err)
	}
	vv, err := c08View(c08ExtDoc(e, true))
	if err != nil {
		return 0, "", fmt.Errorf("%s variant: %w", e.Name, err)
	}
	find := func(v *declView) (fieldView, int) {
		for i, f := range v.Fields["Thing"] {
			if f.TagName == "b" || f.Name == "B" || f.Name == "Bee" || (f.TagName == "-" && i == 1) || (f.TagName == "-" && f.Name == "B") {
				return f, i
			}
		}
		return fieldView{}, -1
	}
	fb, ib := find(vb)
	fv, iv := find(vv)
	mask := 0
	var why []string
	set := func(bit int, cond bool, what string) {
		if cond {
			mask |= 1 << bit
			why = append(why, what)
		}
	}
	set(0, fb.Type != fv.Type, fmt.Sprintf("type %s->%s", fb.Type, fv.Type))
	set(1, fb.Name != fv.Name, fmt.Sprintf("field %s->%s", fb.Name, fv.Name))
	set(2, fb.Pointer != fv.Pointer, "pointer")
	set(3, fb.Omit != fv.Omit, "omitempty")
	set(4, fb.TagName != fv.TagName, fmt.Sprintf("tag %s->%s", fb.TagName, fv.TagName))
	set(5, fb.Other != fv.Other, fmt.Sprintf("tags %q->%q", fb.Other, fv.Other))
	set(6, ib != iv, fmt.Sprintf("order %d->%d", ib, iv))
	// pre-existing type names changed / disappeared
	changed := false
	for n, t := range vb.Types {
		if t2, ok := vv.Types[n]; !ok || (t != "struct" && t != t2) {
			changed = true
		}
	}
	set(7, changed, "existing types changed")
	added := false
	for n := range vv.Types {
		if _, ok := vb.Types[n]; !ok {
			added = true
		}
	}
	set(8, added, "type declarations added")
	set(9, !reflect.DeepEqual(vb.Imports, vv.Imports), "imports")
	set(10, !reflect.DeepEqual(vb.Consts, vv.Consts), fmt.Sprintf("consts %v->%v", vb.Consts, vv.Consts))
	set(11, fb.Doc != fv.Doc, fmt.Sprintf("doc %q->%q", fb.Doc, fv.Doc))
	// the other member must be untouched
	if len(vb.Fields["Thing"]) > 0 && len(vv.Fields["Thing"]) > 0 {
		for _, other := range []string{"a", "c"} {
			var ab, av fieldView
			for _, f := range vb.Fields["Thing"] {
				if f.TagName == other {
					ab = f
				}
			}
			for _, f := range vv.Fields["Thing"] {
				if f.TagName == other {
					av = f
				}
			}
			if ab != av {
				mask |= 1 << 12
				why = append(why, fmt.Sprintf("the other member %s changed: %+v -> %+v", other, ab, av))
			}
		}
	}
	return mask, strings.Join(why, "; "), nil
}

// ---- composite shapes (slices, maps, references) ----

var c08Shapes = []J{
	{"type": "array", "items": J{"type": "string"}},
	{"type": "array", "items": J{"$ref": "#/components/schemas/Y"}},
	{"type": "object"},
	{"type": "object", "additionalProperties": true},
	{"type": "object", "additionalProperties": J{"type": "integer"}},
	{"type": "object", "additionalProperties": J{"$ref": "#/components/schemas/Y"}},
	{"$ref": "#/components/schemas/Y"},
	{"type": "array", "items": J{"type": "array", "items": J{"type": "integer"}}},
	// items that need a declaration of their own (enum; object with additional members; union): the slice is of that type
	{"type": "array", "items": J{"type": "string", "enum": []interface{}{"a", "b"}}},
	{"type": "array", "items": J{"type": "object", "properties": J{"n": J{"type": "string"}}, "additionalProperties": J{"type": "integer"}}},
	{"type": "array", "items": J{"oneOf": []interface{}{J{"$ref": "#/components/schemas/Y"}, J{"type": "string"}}}},
	// compositions: a member is a pointer with omitempty exactly when no member of the allOf requires it — whichever
	// member of the composition declares it and whichever lists it as required (first, later, or another one)
	{"allOf": []interface{}{J{"type": "object", "properties": J{"p": J{"type": "string"}}}, J{"type": "object", "required": []interface{}{"q"}, "properties": J{"q": J{"type": "integer"}}}}},
	{"allOf": []interface{}{J{"$ref": "#/components/schemas/Y"}, J{"type": "object", "required": []interface{}{"a", "q"}, "properties": J{"q": J{"type": "integer"}, "r": J{"type": "boolean"}}}}},
	{"allOf": []interface{}{J{"type": "object", "required": []interface{}{"p"}, "properties": J{"p": J{"type": "string"}}}, J{"type": "object", "properties": J{"q": J{"type": "integer"}}}, J{"type": "object", "required": []interface{}{"s"}, "properties": J{"s": J{"type": "string"}}}}},
	// references and x-go-name: a reference to a renamed component is the new name; a reference to a component that is
	// itself nothing but a reference to the renamed one is that component's own name (renaming does not travel)
	{"$ref": "#/components/schemas/Z"},
	{"$ref": "#/components/schemas/ZAlias"},
	// a reference to a component that opts out of the optional pointer: the member is not a pointer
	{"$ref": "#/components/schemas/NoPtr"},
}
var c08ShapeDoc = []string{"[]string", "[]Y", "map[string]interface{}", "map[string]interface{}", "map[string]int", "map[string]Y", "Y", "[][]int",
	"[]X_Item", "[]X_Item", "[]X_Item",
	"struct{P *string p,omitempty; Q int q}", "struct{A string a; Q int q; R *bool r,omitempty}", "struct{P string p; Q *int q,omitempty; S string s}",
	"ZRenamed", "ZAlias", "NoPtr"}

// as the member m of H the item type is named after the path to it
var c08ShapeDocMember = map[int]string{8: "[]HM", 9: "[]H_M_Item", 10: "[]H_M_Item",
	11: "struct{P *string p,omitempty; Q int q}", 12: "struct{A string a; Q int q; R *bool r,omitempty}", 13: "struct{P string p; Q *int q,omitempty; S string s}"}

// shapes whose optional member is not a pointer
var c08ShapeNoPointer = map[int]bool{16: true}

// c08Canon: a struct type as "struct{<Field> <type> <json name>[,omitempty]; ...}" (fields in the order of the
// declaration); any other type expression unchanged
func c08Canon(typ string) string {
	ptr := ""
	t := typ
	if strings.HasPrefix(t, "*") {
		ptr, t = "*", t[1:]
	}
	if !strings.HasPrefix(strings.TrimSpace(t), "struct") {
		return typ
	}
	var fs []string
	for _, line := range strings.Split(t, "\n") {
		name, ft, tag, omit, _, ok := parseField(strings.TrimSpace(line))
		if !ok {
			continue
		}
		f := name + " " + ft + " " + tag
		if omit {
			f += ",omitempty"
		}
		fs = append(fs, f)
	}
	return ptr + "struct{" + strings.Join(fs, "; ") + "}"
}

type c08ShapeRow struct {
	Shape    int
	AsMember bool
	Got      string
}

func c08ShapeRows() []c08ShapeRow {
	var rows []c08ShapeRow
	y := J{"type": "object", "properties": J{"a": J{"type": "string"}}}
	z := J{"type": "object", "x-go-name": "ZRenamed", "properties": J{"a": J{"type": "string"}}}
	zAlias := J{"$ref": "#/components/schemas/Z"}
	noPtr := J{"type": "object", "x-go-type-skip-optional-pointer": true, "additionalProperties": J{"type": "string"}}
	for i, sh := range c08Shapes {
		gs, err := c08Schema(wDoc(J{}, J{"schemas": J{"X": copyJ(sh), "Y": y, "Z": z, "ZAlias": zAlias, "NoPtr": noPtr}}), "X", codegen.Configuration{})
		got := "error"
		if err == nil {
			got = c08Canon(gs.TypeDecl())
		}
		rows = append(rows, c08ShapeRow{i, false, got})
		hs, err := c08Schema(wDoc(J{}, J{"schemas": J{"H": J{"type": "object", "properties": J{"m": copyJ(sh)}}, "Y": y, "Z": z, "ZAlias": zAlias, "NoPtr": noPtr}}), "H", codegen.Configuration{})
		got = "error"
		if err == nil {
			got = "no-member"
			for _, line := range codegen.GenFieldsFromProperties(hs.Properties) {
				if m := fieldLineRe.FindStringSubmatch(line); m != nil && m[1] == "M" {
					got = m[2]
				}
			}
			if i >= 11 && i <= 13 {
				// an inline composition as a member: the struct is written in place, over several lines
				got = "no-member"
				if hv, err := viewOf("package p\ntype H " + hs.GoType + "\n"); err == nil {
					for _, f := range hv.Fields["H"] {
						if f.Name == "M" {
							got = c08Canon(map[bool]string{true: "*", false: ""}[f.Pointer] + f.Type)
						}
					}
				}
			}
		}
		rows = append(rows, c08ShapeRow{i, true, got})
	}
	return rows
}

func genC08(ctx *Ctx) error {
	if err := genFieldRules(ctx); err != nil {
		return err
	}
	trs := c08TypeRows()
	frs, err := c08FieldRows()
	if err != nil {
		return err
	}
	var b strings.Builder
	b.WriteString("import OapiVerif.Model.TypeMap\n-- GENERATED by `harness gen-c08` from /repo (TAB: the generator executed on every cell). Do not edit.\nnamespace OapiVerif.Gen.C08\nopen OapiVerif.TypeMap\n\n")
	b.WriteString("def typeRows : List TypeRow := [\n")
	for i, r := range trs {
		sep := ","
		if i == len(trs)-1 {
			sep = ""
		}
		fmt.Fprintf(&b, "  ⟨%d, %d, .%s⟩%s\n", r.Ty, r.Fmt, r.Got, sep)
	}
	b.WriteString("]\n\n")
	const chunk = 192
	n := 0
	for i := 0; i < len(frs); i += chunk {
		fmt.Fprintf(&b, "def fieldRows%d : List FieldRow := [\n", n)
		end := i + chunk
		if end > len(frs) {
			end = len(frs)
		}
		for j := i; j < end; j++ {
			r := frs[j]
			sep := ","
			if j == end-1 {
				sep = ""
			}
			fmt.Fprintf(&b, "  ⟨%v, %v, %v, %v, %d, %d, %d, %v, %v, %v, %v, %d, %v⟩%s\n", r.Required, r.Nullable, r.ReadOnly, r.WriteOnly, r.SkipPtr, r.XOmit, r.JSONIgnore, r.NullableType, r.ROFlag, r.GotPointer, r.GotWrap, r.GotTag, r.GotOmit, sep)
		}
		b.WriteString("]\n")
		n++
	}
	parts := []string{}
	for i := 0; i < n; i++ {
		parts = append(parts, fmt.Sprintf("fieldRows%d", i))
	}
	b.WriteString("def fieldRows : List FieldRow := " + strings.Join(parts, " ++ ") + "\n\n")
	b.WriteString("def shapeRows : List ShapeRow := [\n")
	srs := c08ShapeRows()
	for i, r := range srs {
		sep := ","
		if i == len(srs)-1 {
			sep = ""
		}
		fmt.Fprintf(&b, "  ⟨%d, %v, %q⟩%s\n", r.Shape, r.AsMember, r.Got, sep)
	}
	b.WriteString("]\n\n")
	b.WriteString("def extRows : List ExtRow := [\n")
	exts := c08Exts()
	for i, e := range exts {
		mask, _, err := c08ExtMask(e)
		if err != nil {
			mask = 1 << 13
		}
		sep := ","
		if i == len(exts)-1 {
			sep = ""
		}
		fmt.Fprintf(&b, "  ⟨%d, %d⟩%s  -- %s\n", i, mask, sep, e.Name)
	}
	b.WriteString("]\nend OapiVerif.Gen.C08\n")
	return os.WriteFile(filepath.Join(ctx.GenDir, "C08.lean"), []byte(b.String()), 0o644)
}

// the documentation oracles again, in Go, so that a failing cell comes with a replay
func c08DocPointer(r c08FieldRow) bool {
	if r.NullableType && r.Nullable {
		return false
	}
	if r.SkipPtr == 1 {
		return false
	}
	return !r.Required || r.Nullable || r.WriteOnly || (r.ReadOnly && (!r.Required || !r.ROFlag))
}
func c08DocOmit(r c08FieldRow) bool {
	should := (!r.Required || r.ReadOnly || r.WriteOnly) && (!r.Required || !r.ReadOnly || !r.ROFlag)
	base := should
	if r.Nullable {
		base = r.NullableType && should
	}
	if r.XOmit == 1 {
		return true
	}
	if r.XOmit == 2 {
		return false
	}
	return base
}

var c08DocType = map[string]map[string]string{
	"integer": {"": "int", "int32": "int32", "int64": "int64", "int16": "int16", "int8": "int8", "int": "int", "uint64": "uint64", "uint32": "uint32", "uint16": "uint16", "uint8": "uint8", "uint": "uint", "*": "int"},
	"number":  {"": "float32", "float": "float32", "double": "float64", "*": "error"},
	"boolean": {"": "bool", "*": "error"},
	"string":  {"byte": "bytes", "email": "email", "date": "date", "date-time": "time", "json": "rawjson", "uuid": "uuid", "binary": "file", "*": "string"},
}
var c08DocExt = []int{1, 512, 2, 1 + 256, 4, 8, 16 + 8, 64, 32, 1024, 2048}

func runC08(ctx *Ctx) error {
	ctx.Res.Rule = "exhaustive tables: 4 types x 21 formats; required x nullable x readOnly x writeOnly x skip-optional-pointer{unset,true,false} x x-omitempty{unset,true,false} x x-go-json-ignore{unset,true,false} x nullable-type x disable-required-readonly-as-pointer (1728 cells) on a string member; 11 extensions (with vs without: which of 12 coordinates of the declarations change); CORR: the member rule on other member types (ref, array, object, map, integer) equals the string member's in the same cell; non-trivial = every cell Session 9: CORR of the struct tag (Model/FieldTags.lean) on seeded members and extra-tag maps; TRANS Gen/FieldRules.lean; dictionaries of 13-28 entries in the x-order correspondence; fields of the parameter object for parameters referring to renamed schemas."
	for _, r := range c08TypeRows() {
		ty, f := c08Types[r.Ty], c08Formats[r.Fmt]
		want, ok := c08DocType[ty][f]
		if !ok {
			want = c08DocType[ty]["*"]
		}
		ctx.Res.Eval(J{"type": ty, "format": f}, true)
		ctx.Res.Count("cell:type")
		if r.Got != want {
			ctx.Res.Violate(fmt.Sprintf("type:%s:%s", ty, f), fmt.Sprintf("schema {type: %s, format: %q} is rendered as %s, documented %s", ty, f, r.Got, want), J{"schema": J{"type": ty, "format": f}})
		}
	}
	for _, r := range c08ShapeRows() {
		ctx.Res.Eval(J{"shape": r.Shape, "member": r.AsMember}, true)
		ctx.Res.Count("cell:shape")
		want := c08ShapeDoc[r.Shape]
		if r.AsMember {
			if m, ok := c08ShapeDocMember[r.Shape]; ok {
				want = m
			}
			if !c08ShapeNoPointer[r.Shape] {
				want = "*" + want
			}
		}
		if r.Got != want {
			ctx.Res.Violate(fmt.Sprintf("shape:%d:member=%v", r.Shape, r.AsMember), fmt.Sprintf("schema %s (as a member: %v) is rendered as %s, documented %s", Canon(c08Shapes[r.Shape]), r.AsMember, r.Got, want), J{"schema": c08Shapes[r.Shape], "member": r.AsMember})
		}
	}
	// the order of declarations: SortedSchemaKeys (x-order, then name) vs Model/SchemaOrder.lean
	if err := corrSchemaOrder(ctx, ctx.N(1500, 20000)); err != nil {
		return err
	}
	// the struct tag of a member: GenFieldsFromProperties vs Model/FieldTags.lean (any extra-tag map)
	if err := corrFieldTags(ctx, ctx.N(2500, 30000)); err != nil {
		return err
	}
	if err := c08ParamObject(ctx); err != nil {
		return err
	}
	frs, err := c08FieldRows()
	if err != nil {
		return err
	}
	for _, r := range frs {
		ctx.Res.Eval(J{"cell": fmt.Sprintf("%v/%v/%v/%v/%d/%d/%v/%v/%v", r.Required, r.Nullable, r.ReadOnly, r.WriteOnly, r.SkipPtr, r.XOmit, r.JSONIgnore, r.NullableType, r.ROFlag)}, true)
		ctx.Res.Count("cell:field")
		wantTag := 0
		if r.JSONIgnore == 1 {
			wantTag = 1
		}
		okc := r.GotPointer == c08DocPointer(r) && r.GotWrap == (r.NullableType && r.Nullable) && r.GotTag == wantTag && (r.JSONIgnore == 1 || r.GotOmit == c08DocOmit(r))
		if !okc {
			ctx.Res.Violate(fmt.Sprintf("field:req=%v:null=%v:ro=%v:wo=%v:skip=%d:xomit=%d:ignore=%v:nt=%v:rof=%v", r.Required, r.Nullable, r.ReadOnly, r.WriteOnly, r.SkipPtr, r.XOmit, r.JSONIgnore, r.NullableType, r.ROFlag),
				fmt.Sprintf("member rendered as %q; documented pointer=%v nullable-wrapper=%v omitempty=%v", r.Line, c08DocPointer(r), r.NullableType && r.Nullable, c08DocOmit(r)), J{"cell": r})
		}
	}
	// a component generated under its own name in one generation and renamed (x-go-name) in the next one of the process:
	// the references follow the second document
	{
		mk := func(renamed bool) J {
			u := J{"type": "object", "properties": J{"n": J{"type": "string"}}}
			if renamed {
				u["x-go-name"] = "Person"
			}
			return wDoc(J{}, J{"schemas": J{"user": u, "Team": J{"type": "object", "required": []interface{}{"owner"}, "properties": J{"owner": J{"$ref": "#/components/schemas/user"}, "members": J{"type": "array", "items": J{"$ref": "#/components/schemas/user"}}}}}})
		}
		ctx.Res.Eval(J{"sequence": "plain then renamed"}, true)
		if _, err := c08View(mk(false)); err == nil {
			if v, err := c08View(mk(true)); err == nil {
				for _, f := range v.Fields["Team"] {
					if f.Name == "Owner" && f.Type != "Person" || f.Name == "Members" && f.Type != "[]Person" {
						ctx.Res.Violate("rename-after-plain:"+f.Name, fmt.Sprintf("a document whose schema user carries x-go-name Person, generated after a document where it does not: member %s is of type %s", f.Name, f.Type), J{"doc": mk(true)})
					}
				}
			}
		}
	}
	// x-go-type-import: one package path may be imported under several names; every name a type uses is imported
	{
		imp := func(name string) J { return J{"path": "example.com/shared/types", "name": name} }
		doc := wDoc(J{}, J{"schemas": J{"A": J{"type": "object", "properties": J{
			"x": J{"type": "string", "x-go-type": "types.X", "x-go-type-import": imp("types")},
			"y": J{"type": "string", "x-go-type": "shared.Y", "x-go-type-import": imp("shared")}}},
			"B": J{"type": "string", "x-go-type": "tt.Z", "x-go-type-import": imp("tt")}}})
		ctx.Res.Eval(J{"imports": "one-path-several-names"}, true)
		if v, err := c08View(doc); err != nil {
			ctx.Res.Violate("imports:one-path-several-names:generate", "a document whose types import one package under three names is not generated: "+err.Error(), J{"doc": doc})
		} else {
			for _, want := range []string{`types "example.com/shared/types"`, `shared "example.com/shared/types"`, `tt "example.com/shared/types"`} {
				if !contains(v.Imports, want) {
					ctx.Res.Violate("imports:one-path-several-names:missing", fmt.Sprintf("x-go-type-import %s is used by a type but not imported (imports: %v)", want, v.Imports), J{"doc": doc})
				}
			}
		}
	}
	for i, e := range c08Exts() {
		mask, why, err := c08ExtMask(e)
		ctx.Res.Eval(J{"extension": e.Name}, true)
		ctx.Res.Count("cell:extension")
		if err != nil {
			ctx.Res.Violate("ext-error:"+e.Name, "cannot generate the extension documents: "+err.Error(), J{"ext": e.Name})
			continue
		}
		if mask != c08DocExt[i] {
			ctx.Res.Violate(fmt.Sprintf("ext:%s:%d", e.Name, mask), fmt.Sprintf("%s changes coordinates %b (%s); documented %b", e.Name, mask, why, c08DocExt[i]),
				J{"ext": e.Name, "base": c08ExtDoc(e, false), "variant": c08ExtDoc(e, true)})
		}
	}
	ctx.Res.Exhaustive = true
	// CORR: independence of the member rule from the member's own type
	members := []J{{"$ref": "#/components/schemas/Other"}, {"type": "array", "items": J{"type": "string"}}, {"type": "object", "properties": J{"q": J{"type": "integer"}}},
		{"type": "object", "additionalProperties": J{"type": "string"}}, {"type": "integer", "format": "int64"}, {"type": "string", "format": "date-time"}, {"type": "number"}}
	for i := 0; i < ctx.N(300, 3000); i++ {
		r := ctx.Rng.Fork()
		cell := c08FieldRow{Required: r.Bool(), Nullable: r.Bool(), ReadOnly: r.Bool(), WriteOnly: r.Bool(), SkipPtr: r.Intn(3), XOmit: r.Intn(3), JSONIgnore: []int{0, 0, 0, 1, 2}[r.Intn(5)], NullableType: r.Bool(), ROFlag: r.Bool()}
		m := members[r.Intn(len(members))]
		if _, isRef := m["$ref"]; isRef {
			// attributes next to a $ref are not read from the referencing site; only `required` applies
			cell.Nullable, cell.ReadOnly, cell.WriteOnly, cell.SkipPtr, cell.XOmit, cell.JSONIgnore = false, false, false, 0, 0, 0
		}
		got, err := c08FieldCell(cell, m)
		if err != nil {
			return err
		}
		want, err := c08FieldCell(cell, J{"type": "string"})
		if err != nil {
			return err
		}
		ctx.Res.Eval(J{"member": m, "cell": fmt.Sprintf("%+v", cell)}, true)
		ctx.Res.Count("corr:member-type")
		if got.GotPointer != want.GotPointer || got.GotWrap != want.GotWrap || got.GotOmit != want.GotOmit || got.GotTag != want.GotTag {
			ctx.Res.Violate("member-type-dependence:"+Hash(m), fmt.Sprintf("pointer/omitempty of a member depends on its type: %q vs %q", got.Line, want.Line), J{"member": m, "cell": cell})
		}
	}
	return nil
}

func init() {
	register("c08", runC08)
	register("gen-c08", genC08)
}
