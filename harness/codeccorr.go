package main

import (
	"encoding/hex"
	"fmt"
	"net/url"
	"strings"
	"unicode/utf8"

	"github.com/oapi-codegen/runtime"
)

// In-process correspondence of the Lean codec (Model/Escape.lean, Model/Codec.lean) with the
// pinned runtime and net/url — the tie for the ∀-value theorems of C04/C05/C06.

type corrObj struct {
	A *string `json:"a,omitempty"`
	B *string `json:"b,omitempty"`
}

var locConst = map[string]runtime.ParamLocation{"path": runtime.ParamLocationPath, "query": runtime.ParamLocationQuery,
	"header": runtime.ParamLocationHeader, "cookie": runtime.ParamLocationCookie, "undefined": runtime.ParamLocationUndefined}

func unhx(s string) string {
	b, _ := hex.DecodeString(s)
	return string(b)
}

func randBytes(r *Rng, max int) string {
	n := r.Intn(max + 1)
	pool := []string{"a", "b", "Z", "0", "9", " ", "+", "%", "%4", "%41", "%zz", "%2C", "%2F", ",", ";", ".", "=", "&", "/", "?", "#", ":", "@", "$", "-", "_", "~", "é", "日", "\xff", "\x00", "\"", "\\", "<", "|", "{", "*", "(", "!", "'"}
	var sb strings.Builder
	for i := 0; i < n; i++ {
		sb.WriteString(pool[r.Intn(len(pool))])
	}
	return sb.String()
}

func tameStr(r *Rng, max int) string {
	n := 1 + r.Intn(max)
	pool := []string{"a", "b", "Z", "0", "9", " ", "+", "%", "/", "?", "#", ":", "@", "$", "-", "_", "~", "é", "日", "<", "|", "{", "*", "(", "!", "'", "%41"}
	var sb strings.Builder
	for i := 0; i < n; i++ {
		sb.WriteString(pool[r.Intn(len(pool))])
	}
	return sb.String()
}

func corrCodec(ctx *Ctx, pid string) error {
	n := ctx.N(1500, 30000)
	styles := []string{"simple", "label", "matrix", "form"}
	locs := []string{"path", "query", "header", "cookie", "undefined"}
	shapes := []string{"prim", "arr", "obj"}
	// 1. escaping
	for i := 0; i < n; i++ {
		r := ctx.Rng.Fork()
		s := randBytes(r, 6)
		for _, mode := range []string{"path", "query"} {
			var implE string
			var implU string
			var uerr error
			if mode == "path" {
				implE = url.PathEscape(s)
				implU, uerr = url.PathUnescape(s)
			} else {
				implE = url.QueryEscape(s)
				implU, uerr = url.QueryUnescape(s)
			}
			var mE string
			if err := ctx.Model(map[string]interface{}{"fn": "escape", "mode": mode, "s": hx(s)}, &mE); err != nil {
				return err
			}
			ctx.Res.Count("corr:escape")
			if unhx(mE) != implE {
				ctx.Res.Disagree("CORR escape (Model/Escape.lean vs net/url "+mode+" escape)", J{"s": s, "mode": mode}, unhx(mE), implE)
			}
			var mU *string
			if err := ctx.Model(map[string]interface{}{"fn": "unescape", "mode": mode, "s": hx(s)}, &mU); err != nil {
				return err
			}
			mstr := "<error>"
			if mU != nil {
				mstr = unhx(*mU)
			}
			istr := "<error>"
			if uerr == nil {
				istr = implU
			}
			if mstr != istr {
				ctx.Res.Disagree("CORR unescape (Model/Escape.lean vs net/url "+mode+" unescape)", J{"s": s, "mode": mode}, mstr, istr)
			}
			// the property's own oracle for escaping: round trip on the implementation
			if back, err := func() (string, error) {
				if mode == "path" {
					return url.PathUnescape(implE)
				}
				return url.QueryUnescape(implE)
			}(); err != nil || back != s {
				ctx.Res.Violate("escape-roundtrip:"+mode, fmt.Sprintf("net/url %s escape/unescape does not round-trip %q", mode, s), J{"s": s})
			}
		}
	}
	// 2. styleParam / bindStyled / bindQuery
	for i := 0; i < n; i++ {
		r := ctx.Rng.Fork()
		st := styles[r.Intn(4)]
		loc := locs[r.Intn(5)]
		sh := shapes[r.Intn(3)]
		explode := r.Bool()
		required := r.Bool()
		name := []string{"v", "id", "X-V", "color"}[r.Intn(4)]
		var val PValue
		var goVal interface{}
		mk := func() string {
			if r.Chance(70) {
				return tameStr(r, 3)
			}
			return randBytes(r, 4)
		}
		switch sh {
		case "prim":
			s := mk()
			val = PValue{K: "prim", S: s}
			goVal = s
		case "arr":
			k := r.Intn(4)
			xs := []string{}
			for j := 0; j < k; j++ {
				xs = append(xs, mk())
			}
			val = PValue{K: "arr", Xs: xs}
			goVal = xs
		case "obj":
			o := corrObj{}
			if r.Chance(80) {
				s := mk()
				o.A = &s
				val.Keys, val.Vals = append(val.Keys, "a"), append(val.Vals, s)
			}
			if r.Chance(60) {
				s := mk()
				o.B = &s
				val.Keys, val.Vals = append(val.Keys, "b"), append(val.Vals, s)
			}
			val.K = "obj"
			goVal = o
		}
		ctx.Res.Count("corr:style:" + st + "/" + sh)
		implWire, err := runtime.StyleParamWithLocation(st, explode, name, locConst[loc], goVal)
		var mWire string
		if merr := ctx.Model(map[string]interface{}{"fn": "styleParam", "style": st, "explode": explode, "name": hx(name), "loc": loc, "val": val.Lean()}, &mWire); merr != nil {
			return merr
		}
		c := J{"style": st, "explode": explode, "name": name, "loc": loc, "shape": sh, "val": val}
		if err != nil {
			ctx.Res.Disagree("CORR styleParam (impl error)", c, unhx(mWire), "error: "+err.Error())
		} else if unhx(mWire) != implWire {
			ctx.Res.Disagree("CORR styleParam (Model/Codec.lean styleParam vs runtime.StyleParamWithLocation)", c, unhx(mWire), implWire)
		}
		// bind: on the styled wire (70%) or on a malformed one
		wire := implWire
		if r.Chance(30) {
			wire = randBytes(r, 8)
			if r.Chance(50) && len(implWire) > 0 {
				k := r.Intn(len(implWire))
				wire = implWire[:k] + randBytes(r, 2) + implWire[k:]
			}
		}
		if loc != "query" {
			decoded := wire
			switch loc {
			case "path":
				if d, e := url.PathUnescape(wire); e == nil {
					decoded = d
				}
			case "undefined":
				if d, e := url.QueryUnescape(wire); e == nil {
					decoded = d
				}
			}
			jsonUnsafe := strings.ContainsAny(decoded, "\"\\") || hasCtl(decoded) || !validUTF8(decoded)
			if sh == "obj" && jsonUnsafe {
				ctx.Res.Count("corr:bind-skipped-json-unsafe")
			} else if st == "label" && !explode && wire == "" && !required {
				ctx.Res.Count("corr:bind-skipped-label-empty-panics") // value[0] on "" panics in the runtime; the wrappers never pass "" here unless the client sent it
			} else {
				if err := corrBind(ctx, st, explode, required, name, loc, sh, wire); err != nil {
					return err
				}
			}
		}
		// query pipeline: the form-styled fragment (or a malformed one) through ParseQuery + BindQueryParameter
		qwire, qerr := runtime.StyleParamWithLocation("form", explode, name, runtime.ParamLocationQuery, goVal)
		if qerr == nil {
			if r.Chance(25) {
				qwire = randBytes(r, 8)
			} else if r.Chance(20) {
				qwire = qwire + "&" + name + "=" + tameStr(r, 2)
			} else if r.Chance(10) {
				qwire = ""
			}
			if err := corrBindQuery(ctx, explode, required, name, sh, qwire); err != nil {
				return err
			}
		}
	}
	// 4. deepObject (flat object of strings): MarshalDeepObject / UnmarshalDeepObject vs Model/DeepObject.lean
	for i := 0; i < n/3; i++ {
		r := ctx.Rng.Fork()
		name := []string{"v", "id", "color", "f"}[r.Intn(4)]
		nk := 1 + r.Intn(3)
		keys, vals := []string{}, []string{}
		kset := map[string]bool{}
		m := map[string]interface{}{}
		for j := 0; j < nk; j++ {
			k := []string{"a", "b", "R", "G", "key_1", "x-y"}[r.Intn(6)]
			if kset[k] {
				continue
			}
			kset[k] = true
			v := tameStr(r, 2)
			if r.Chance(35) {
				v = randBytes(r, 4)
			}
			if !utf8.ValidString(v) || strings.ContainsAny(v, "\x00") {
				v = "plain"
			}
			keys = append(keys, k)
			vals = append(vals, v)
			m[k] = v
		}
		implFrag, ierr := runtime.StyleParamWithLocation("deepObject", true, name, runtime.ParamLocationQuery, m)
		var mres struct {
			Frag  string `json:"frag"`
			Bound struct {
				ParseErr string   `json:"parseErr"`
				BindErr  string   `json:"bindErr"`
				Keys     []string `json:"keys"`
				Vals     []string `json:"vals"`
			} `json:"bound"`
		}
		if err := ctx.Model(J{"fn": "deepObject", "name": hx(name), "keys": hxs(keys), "vals": hxs(vals)}, &mres); err != nil {
			return err
		}
		ctx.Res.Count("corr:deepObject")
		cs := J{"name": name, "keys": keys, "vals": vals}
		if ierr != nil {
			ctx.Res.Disagree("CORR deepObject: StyleParamWithLocation fails", cs, unhx(mres.Frag), ierr.Error())
			continue
		}
		if unhx(mres.Frag) != implFrag {
			ctx.Res.Disagree("CORR deepObject fragment (Model/DeepObject.frag vs MarshalDeepObject)", cs, unhx(mres.Frag), implFrag)
			continue
		}
		// server side on what url.ParseQuery makes of the fragment
		q, perr := url.ParseQuery(implFrag)
		if (perr != nil) != (mres.Bound.ParseErr != "") {
			ctx.Res.Disagree("CORR deepObject: ParseQuery error or not", cs, mres.Bound.ParseErr, fmt.Sprint(perr))
			continue
		}
		if perr != nil {
			continue
		}
		dst := map[string]string{}
		berr := runtime.BindQueryParameter("deepObject", true, true, name, q, &dst)
		if (berr != nil) != (mres.Bound.BindErr != "") {
			ctx.Res.Disagree("CORR deepObject: bind error or not", cs, mres.Bound.BindErr, fmt.Sprint(berr))
			continue
		}
		if berr == nil {
			want := map[string]string{}
			for j := range mres.Bound.Keys {
				want[unhx(mres.Bound.Keys[j])] = unhx(mres.Bound.Vals[j])
			}
			if Canon(want) != Canon(dst) {
				ctx.Res.Disagree("CORR deepObject bound members (DeepObject.bind vs UnmarshalDeepObject)", cs, want, dst)
			}
		}
	}
	return nil
}

func hasCtl(s string) bool {
	for i := 0; i < len(s); i++ {
		if s[i] < 0x20 || s[i] == 0x7f {
			return true
		}
	}
	return false
}

func validUTF8(s string) bool { return strings.ToValidUTF8(s, "�") == s }

type mval struct {
	K    string   `json:"k"`
	S    string   `json:"s"`
	Xs   []string `json:"xs"`
	Keys []string `json:"keys"`
	Vals []string `json:"vals"`
}
type mres struct {
	Ok    *mval   `json:"ok"`
	Error *string `json:"error"`
}

// canonical rendering of a bound value restricted to the destination's known members a, b
func renderObj(keys, vals []string) string {
	m := map[string]string{}
	for i, k := range keys {
		if k == "a" || k == "b" {
			m[k] = vals[i]
		}
	}
	return Canon(m)
}

func (m mres) render(sh string) string {
	if m.Error != nil || m.Ok == nil {
		return "error"
	}
	switch m.Ok.K {
	case "prim":
		return "prim:" + unhx(m.Ok.S)
	case "arr":
		xs := []string{}
		for _, x := range m.Ok.Xs {
			xs = append(xs, unhx(x))
		}
		return "arr:" + Canon(xs)
	}
	ks, vs := []string{}, []string{}
	for i := range m.Ok.Keys {
		ks = append(ks, unhx(m.Ok.Keys[i]))
		vs = append(vs, unhx(m.Ok.Vals[i]))
	}
	return "obj:" + renderObj(ks, vs)
}

func renderImpl(sh string, s string, xs []string, o corrObj, err error) string {
	if err != nil {
		return "error"
	}
	switch sh {
	case "prim":
		return "prim:" + s
	case "arr":
		if xs == nil {
			xs = []string{}
		}
		return "arr:" + Canon(xs)
	}
	ks, vs := []string{}, []string{}
	if o.A != nil {
		ks, vs = append(ks, "a"), append(vs, *o.A)
	}
	if o.B != nil {
		ks, vs = append(ks, "b"), append(vs, *o.B)
	}
	return "obj:" + renderObj(ks, vs)
}

func corrBind(ctx *Ctx, st string, explode, required bool, name, loc, sh, wire string) (err error) {
	var s string
	var xs []string
	var o corrObj
	var ierr error
	func() {
		defer func() {
			if r := recover(); r != nil {
				ierr = fmt.Errorf("panic: %v", r)
			}
		}()
		opts := runtime.BindStyledParameterOptions{ParamLocation: locConst[loc], Explode: explode, Required: required}
		switch sh {
		case "prim":
			ierr = runtime.BindStyledParameterWithOptions(st, name, wire, &s, opts)
		case "arr":
			ierr = runtime.BindStyledParameterWithOptions(st, name, wire, &xs, opts)
		case "obj":
			ierr = runtime.BindStyledParameterWithOptions(st, name, wire, &o, opts)
		}
	}()
	var m mres
	if err := ctx.Model(map[string]interface{}{"fn": "bindStyled", "style": st, "explode": explode, "required": required, "name": hx(name), "loc": loc, "shape": sh, "wire": hx(wire)}, &m); err != nil {
		return err
	}
	ctx.Res.Count("corr:bind:" + st + "/" + sh)
	got, want := renderImpl(sh, s, xs, o, ierr), m.render(sh)
	if sh == "obj" && want != "error" && hasDupKeys(m) {
		ctx.Res.Count("corr:bind-skipped-dup-keys")
		return nil
	}
	if got != want {
		ctx.Res.Disagree("CORR bindStyled (Model/Codec.lean bindStyled vs runtime.BindStyledParameterWithOptions)",
			J{"style": st, "explode": explode, "required": required, "name": name, "loc": loc, "shape": sh, "wire": wire}, want, got)
	}
	return nil
}

func hasDupKeys(m mres) bool {
	if m.Ok == nil {
		return false
	}
	seen := map[string]bool{}
	for _, k := range m.Ok.Keys {
		// encoding/json matches member names case-insensitively: "A" also sets member a
		k = strings.ToLower(unhx(k))
		if seen[k] {
			return true
		}
		seen[k] = true
		if (k == "a" || k == "b") && unhx(k) != k {
			return true
		}
	}
	for _, k := range m.Ok.Keys {
		if u := unhx(k); u != strings.ToLower(u) && (strings.ToLower(u) == "a" || strings.ToLower(u) == "b") {
			return true
		}
	}
	return false
}

func corrBindQuery(ctx *Ctx, explode, required bool, name, sh, wire string) error {
	q, perr := url.ParseQuery(wire)
	var s *string
	var xs *[]string
	var o *corrObj
	var rs string
	var rxs []string
	var ro corrObj
	var ierr error
	absent := false
	func() {
		defer func() {
			if r := recover(); r != nil {
				ierr = fmt.Errorf("panic: %v", r)
			}
		}()
		if perr != nil {
			ierr = perr
			return
		}
		switch sh {
		case "prim":
			if required {
				ierr = runtime.BindQueryParameter("form", explode, true, name, q, &rs)
			} else {
				ierr = runtime.BindQueryParameter("form", explode, false, name, q, &s)
				if s == nil {
					absent = true
				} else {
					rs = *s
				}
			}
		case "arr":
			if required {
				ierr = runtime.BindQueryParameter("form", explode, true, name, q, &rxs)
			} else {
				ierr = runtime.BindQueryParameter("form", explode, false, name, q, &xs)
				if xs == nil {
					absent = true
				} else {
					rxs = *xs
				}
			}
		case "obj":
			if required {
				ierr = runtime.BindQueryParameter("form", explode, true, name, q, &ro)
			} else {
				ierr = runtime.BindQueryParameter("form", explode, false, name, q, &o)
				if o == nil {
					absent = true
				} else {
					ro = *o
				}
			}
		}
	}()
	var m struct {
		Ok     *mval   `json:"ok"`
		Error  *string `json:"error"`
		isNull bool
	}
	var raw map[string]interface{}
	if err := ctx.Model(map[string]interface{}{"fn": "bindQuery", "explode": explode, "required": required, "name": hx(name), "shape": sh, "fields": []string{hx("a"), hx("b")}, "wire": hx(wire)}, &raw); err != nil {
		return err
	}
	ctx.Res.Count("corr:bindQuery:" + sh)
	want := "error"
	if _, isErr := raw["error"]; !isErr {
		if raw["ok"] == nil {
			want = "absent"
		} else {
			b := Canon(raw["ok"])
			var mv mval
			_ = jsonUnmarshalString(b, &mv)
			want = mres{Ok: &mv}.render(sh)
		}
	}
	_ = m
	got := renderImpl(sh, rs, rxs, ro, ierr)
	if ierr == nil && absent {
		got = "absent"
	}
	// required + exploded object with no member present: the runtime leaves the zero struct without error
	if sh == "obj" && required && explode && want == "absent" && got == "obj:{}" {
		return nil
	}
	if dq, e := url.QueryUnescape(wire); sh == "obj" && !explode && (e != nil || strings.ContainsAny(dq, "\"\\") || hasCtl(dq) || !validUTF8(dq)) {
		ctx.Res.Count("corr:bindQuery-skipped-json-unsafe")
		return nil
	}
	if got != want {
		ctx.Res.Disagree("CORR bindQuery (Model/Codec.lean parseQuery+bindQuery vs url.ParseQuery+runtime.BindQueryParameter)",
			J{"explode": explode, "required": required, "name": name, "shape": sh, "wire": wire}, want, got)
	}
	return nil
}
