package main

import (
	"encoding/hex"
	"fmt"
	"sort"
	"strings"
)

// The finite space of parameter shapes (C04/C05/C06): location x style x explode(unset/true/false)
// x type x required x {schema, JSON content, pass-through}; one operation per shape.

type PType struct {
	Kind   string // str int int32 int64 float double bool date datetime uuid arrS arrI obj
	Shape  string // prim arr obj
	Schema J
}

var pTypes = []PType{
	{"str", "prim", J{"type": "string"}},
	{"int", "prim", J{"type": "integer"}},
	{"int32", "prim", J{"type": "integer", "format": "int32"}},
	{"int64", "prim", J{"type": "integer", "format": "int64"}},
	{"float", "prim", J{"type": "number", "format": "float"}},
	{"double", "prim", J{"type": "number", "format": "double"}},
	{"bool", "prim", J{"type": "boolean"}},
	{"date", "prim", J{"type": "string", "format": "date"}},
	{"datetime", "prim", J{"type": "string", "format": "date-time"}},
	{"uuid", "prim", J{"type": "string", "format": "uuid"}},
	{"arrS", "arr", J{"type": "array", "items": J{"type": "string"}}},
	{"arrI", "arr", J{"type": "array", "items": J{"type": "integer"}}},
	{"obj", "obj", J{"$ref": "#/components/schemas/Obj"}},
}

func pTypeByKind(k string) PType {
	for _, t := range pTypes {
		if t.Kind == k {
			return t
		}
	}
	panic("ptype " + k)
}

// The header parameter's name is deliberately not in canonical MIME form (canonical: X-Req-Id): a wrapper that looks the
// header up under the spelling of the document instead of the canonical key never finds it.
const headerParamName = "X-Req-ID"
const headerGoName = "XReqID"

type PShape struct {
	ID         int
	Loc        string
	Style      string // "" = unset
	Explode    string // "" unset, "true", "false"
	T          PType
	Required   bool
	Mode       string // schema | json | pass
	AllowEmpty bool   // allowEmptyValue: true (query only); changes nothing about presence being required
}

func (s PShape) OpID() string { return fmt.Sprintf("P%d", s.ID) }
func (s PShape) ParamName() string {
	if s.Loc == "header" {
		return headerParamName
	}
	return "v"
}
func (s PShape) Path() string {
	if s.Loc == "path" {
		return fmt.Sprintf("/p%d/{v}", s.ID)
	}
	return fmt.Sprintf("/p%d", s.ID)
}

// OAS defaults (the documentation, not the generator's code).
func (s PShape) EffStyle() string {
	if s.Style != "" {
		return s.Style
	}
	if s.Loc == "path" || s.Loc == "header" {
		return "simple"
	}
	return "form"
}
func (s PShape) EffExplode() bool {
	if s.Explode != "" {
		return s.Explode == "true"
	}
	if s.Style == "deepObject" {
		return true // the only row the OAS table defines for deepObject; the literal default (false) is not serialisable
	}
	return s.EffStyle() == "form"
}

// WireStyle is the value syntax actually used on the wire: cookies are (de)serialised with the
// 'simple' value syntax whatever their declared style (property C05, anchors).
func (s PShape) WireStyle() string {
	if s.Loc == "cookie" {
		return "simple"
	}
	return s.EffStyle()
}

func (s PShape) Desc() string {
	st, ex := s.Style, s.Explode
	if st == "" {
		st = "-"
	}
	if ex == "" {
		ex = "-"
	}
	req := "opt"
	if s.Required {
		req = "req"
	}
	if s.AllowEmpty {
		req += "+allowEmpty"
	}
	return fmt.Sprintf("%s/%s/%s/%s/%s/%s", s.Loc, st, ex, s.T.Kind, req, s.Mode)
}

func (s PShape) Param() J {
	p := J{"name": s.ParamName(), "in": s.Loc}
	if s.Required || s.Loc == "path" {
		p["required"] = true
	}
	if s.AllowEmpty {
		p["allowEmptyValue"] = true
	}
	switch s.Mode {
	case "schema":
		p["schema"] = s.T.Schema
		if s.Style != "" {
			p["style"] = s.Style
		}
		if s.Explode != "" {
			p["explode"] = s.Explode == "true"
		}
	case "json":
		p["content"] = J{"application/json": J{"schema": s.T.Schema}}
	case "pass":
		p["content"] = J{"text/plain": J{"schema": J{"type": "string"}}}
	}
	return p
}

// allShapes enumerates the shape space. full=false keeps a covering subset for the quick tier.
func allShapes() []PShape {
	var out []PShape
	id := 0
	add := func(s PShape) {
		s.ID = id
		id++
		out = append(out, s)
	}
	styles := map[string][]string{"path": {"", "simple", "label", "matrix"}, "query": {"", "form"}, "header": {"", "simple"}, "cookie": {"", "form"}}
	for _, loc := range []string{"path", "query", "header", "cookie"} {
		for _, st := range styles[loc] {
			for _, ex := range []string{"", "true", "false"} {
				for _, t := range pTypes {
					reqs := []bool{true, false}
					if loc == "path" {
						reqs = []bool{true}
					}
					for _, r := range reqs {
						add(PShape{Loc: loc, Style: st, Explode: ex, T: t, Required: r, Mode: "schema"})
					}
				}
			}
		}
		if loc == "query" {
			for _, k := range []string{"str", "int32", "arrI"} {
				for _, r := range []bool{true, false} {
					add(PShape{Loc: loc, T: pTypeByKind(k), Required: r, Mode: "schema", AllowEmpty: true})
				}
			}
			// deepObject is defined for objects only; explode=false is not a row of the OAS table
			for _, ex := range []string{"", "true"} {
				for _, r := range []bool{true, false} {
					add(PShape{Loc: loc, Style: "deepObject", Explode: ex, T: pTypeByKind("obj"), Required: r, Mode: "schema"})
				}
			}
		}
		for _, mode := range []string{"json", "pass"} {
			reqs := []bool{true, false}
			if loc == "path" {
				reqs = []bool{true}
			}
			for _, r := range reqs {
				t := pTypeByKind("obj")
				if mode == "pass" {
					t = pTypeByKind("str")
				}
				add(PShape{Loc: loc, T: t, Required: r, Mode: mode})
				if mode == "json" {
					add(PShape{Loc: loc, T: pTypeByKind("arrI"), Required: r, Mode: mode})
				}
			}
		}
	}
	return out
}

func shapesDoc(shapes []PShape) J {
	paths := J{}
	for _, s := range shapes {
		pi := J{"get": J{"operationId": s.OpID(), "parameters": []interface{}{s.Param()},
			"responses": J{"204": J{"description": "d"}}}}
		if s.Loc != "path" && s.ID%3 == 0 {
			// the path item declares the same parameter (name and location) differently — other type, opposite
			// requiredness: the operation's own declaration replaces it in every respect
			pi["parameters"] = []interface{}{J{"name": s.Param()["name"], "in": s.Loc, "required": !s.Required, "schema": J{"type": "boolean"}}}
		}
		paths[s.Path()] = pi
	}
	return J{"openapi": "3.0.3", "info": J{"title": "t", "version": "1"}, "paths": paths,
		"components": J{"schemas": J{"Obj": J{"type": "object", "required": []interface{}{"a", "b"}, "properties": J{"a": J{"type": "string"}, "b": J{"type": "string"}}}}}}
}

// ---------- values ----------

// PValue is a parameter value: its JSON form (what the typed Go value marshals to) and its
// string-level form (what the styles serialise).
type PValue struct {
	JSON    interface{}
	K       string // prim arr obj
	S       string
	Xs      []string
	Keys    []string
	Vals    []string
	Classes []string // character classes of the string atoms used (for signatures / shrinking)
}

func hx(s string) string { return hex.EncodeToString([]byte(s)) }
func hxs(xs []string) []string {
	out := make([]string, len(xs))
	for i, x := range xs {
		out[i] = hx(x)
	}
	return out
}

func (v PValue) Lean() J {
	switch v.K {
	case "prim":
		return J{"k": "prim", "s": hx(v.S)}
	case "arr":
		return J{"k": "arr", "xs": hxs(v.Xs)}
	}
	return J{"k": "obj", "keys": hxs(v.Keys), "vals": hxs(v.Vals)}
}

type atom struct{ Class, S string }

// The value domain of property C04: letters of any script, digits, space and URL-reserved
// punctuation (RFC 3986 gen-delims / sub-delims) plus the unreserved marks. '%', '"', '\\', '<',
// '{', '|' are neither letters nor reserved characters and are outside the quantifier.
var strAtoms = []atom{
	{"alpha", "abc"}, {"alpha", "Z"}, {"digit", "0"}, {"digit", "42"}, {"nonascii", "é"}, {"nonascii", "日本"}, {"nonascii", "Ж"}, {"nonascii", "😀"},
	{"space", " "}, {"slash", "/"}, {"question", "?"}, {"hash", "#"}, {"colon", ":"}, {"plus", "+"}, {"amp", "&"}, {"equals", "="},
	{"at", "@"}, {"dollar", "$"}, {"semicolon", ";"}, {"comma", ","}, {"dot", "."}, {"bracket", "["}, {"bracket", "]"},
	{"star", "*"}, {"paren", "("}, {"paren", ")"}, {"bang", "!"}, {"apostrophe", "'"}, {"dash", "-"}, {"underscore", "_"}, {"tilde", "~"},
}

// delims returns the classes a value part may not contain for the style to represent it
// unambiguously ("no delimiter character of the style itself"), plus what the transport of
// the location cannot carry at all (net/http header / cookie rules) — the Repr predicate.
func (s PShape) forbidden(part string) map[string]bool {
	f := map[string]bool{}
	if s.Mode != "schema" {
		return f
	}
	st, ex := s.WireStyle(), s.EffExplode()
	if s.Loc == "query" && !ex {
		f["comma"] = true // the unexploded form value is split on ',' whatever the shape
	}
	if s.T.Shape == "arr" || s.T.Shape == "obj" {
		switch st {
		case "simple":
			f["comma"] = true
		case "label":
			if ex {
				f["dot"] = true
			} else {
				f["comma"] = true
			}
		case "matrix":
			if ex {
				f["semicolon"] = true
			} else {
				f["comma"] = true
			}
		case "form":
			if !ex {
				f["comma"] = true
			}
		}
		if s.T.Shape == "obj" && ex {
			f["equals"] = true
		}
		if s.T.Shape == "obj" && ex && st == "form" && s.Loc != "query" {
			f["amp"] = true
		}
	}
	return f
}

func genString(r *Rng, s PShape) (string, []string) {
	forb := s.forbidden("")
	n := 1 + r.Intn(3)
	var sb strings.Builder
	var classes []string
	for i := 0; i < n; i++ {
		a := strAtoms[r.Intn(len(strAtoms))]
		if r.Chance(45) {
			a = strAtoms[r.Intn(4)] // bias to tame
		}
		if forb[a.Class] {
			continue
		}
		sb.WriteString(a.S)
		classes = append(classes, a.Class)
	}
	// every generated value carries at least one letter or digit: values made of punctuation only
	// ("." "/" ":") hit router-specific path normalisation that has nothing to do with the codec
	if !contains(classes, "alpha") && !contains(classes, "digit") && !contains(classes, "nonascii") {
		return "x" + sb.String(), append(classes, "alpha")
	}
	return sb.String(), classes
}

var intPool = map[string][]string{
	"int":   {"0", "1", "-1", "42", "9223372036854775807", "-9223372036854775808"},
	"int32": {"0", "7", "-7", "2147483647", "-2147483648"},
	"int64": {"0", "5", "-5", "9223372036854775807", "-9223372036854775808", "9007199254740993"},
}

func genPrim(r *Rng, kind string, s PShape) (interface{}, string, []string) {
	switch kind {
	case "str":
		str, cl := genString(r, s)
		return str, str, cl
	case "int", "int32", "int64":
		p := intPool[kind]
		v := p[r.Intn(len(p))]
		return jsonNumber(v), v, []string{"num"}
	case "float":
		p := []string{"0", "1.5", "-0.25", "100", "3.25"}
		v := p[r.Intn(len(p))]
		return jsonNumber(v), v, []string{"num"}
	case "double":
		p := []string{"0", "1.5", "-0.125", "1e+06", "123456.789"}
		v := p[r.Intn(len(p))]
		if v == "1e+06" {
			return jsonNumber("1000000"), "1000000", []string{"num"}
		}
		return jsonNumber(v), v, []string{"num"}
	case "bool":
		if r.Bool() {
			return true, "true", []string{"bool"}
		}
		return false, "false", []string{"bool"}
	case "date":
		p := []string{"2021-02-03", "1999-12-31", "2024-02-29"}
		v := p[r.Intn(len(p))]
		return v, v, []string{"date"}
	case "datetime":
		p := []string{"2021-02-03T04:05:06Z", "1999-12-31T23:59:59.123Z", "2024-02-29T12:00:00+02:00"}
		v := p[r.Intn(len(p))]
		return v, v, []string{"datetime"}
	case "uuid":
		p := []string{"123e4567-e89b-12d3-a456-426614174000", "00000000-0000-0000-0000-000000000000"}
		v := p[r.Intn(len(p))]
		return v, v, []string{"uuid"}
	}
	panic("genPrim " + kind)
}

type jsonNumber string

func (n jsonNumber) MarshalJSON() ([]byte, error) { return []byte(n), nil }

func genValue(r *Rng, s PShape) PValue {
	switch s.T.Kind {
	case "arrS", "arrI":
		ek := "str"
		if s.T.Kind == "arrI" {
			ek = "int"
		}
		n := 1 + r.Intn(3)
		v := PValue{K: "arr"}
		js := []interface{}{}
		for i := 0; i < n; i++ {
			j, str, cl := genPrim(r, ek, s)
			js = append(js, j)
			v.Xs = append(v.Xs, str)
			v.Classes = append(v.Classes, cl...)
		}
		v.JSON = js
		return v
	case "obj":
		v := PValue{K: "obj"}
		m := J{}
		for _, k := range []string{"a", "b"} {
			_, str, cl := genPrim(r, "str", s)
			m[k] = str
			v.Keys = append(v.Keys, k)
			v.Vals = append(v.Vals, str)
			v.Classes = append(v.Classes, cl...)
		}
		v.JSON = m
		return v
	}
	j, str, cl := genPrim(r, s.T.Kind, s)
	return PValue{JSON: j, K: "prim", S: str, Classes: cl}
}

func classKey(cl []string) string {
	m := map[string]bool{}
	for _, c := range cl {
		m[c] = true
	}
	ks := SortedKeys(m)
	sort.Strings(ks)
	return strings.Join(ks, "+")
}

// headerOK / cookieOK: what net/http can carry at all in that location (transport limits that
// are not the generator's; values outside are not "representable" there).
func transportOK(loc string, v PValue) bool {
	parts := append(append([]string{v.S}, v.Xs...), v.Vals...)
	for _, p := range parts {
		switch loc {
		case "header":
			if p != strings.TrimSpace(p) {
				return false
			}
		case "path":
			// "." and ".." are dot-segments (RFC 3986 §5.2.4): no URL can carry them as a segment
			if v.K == "prim" && (p == "." || p == "..") {
				return false
			}
		}
	}
	return true
}
