package main

// runkit — compile-and-run of generated code ("RUN" tie of DESIGN.md §8.2).
//
// For a (document, configuration, framework) triple the kit generates the code with the
// real generator (package main), derives a recording stub and reflection tables from the
// generated file's AST, adds a generic line-protocol program, builds it with `go build`
// in a scratch module and talks to it over stdin/stdout:
//
//   {"do":"client","fn":"NewFooRequest","args":[…json…]}        -> the request the generated client builds
//   {"do":"serve","req":{method,url,headers,body},"opt":{…}}    -> what the generated server did with it
//   {"do":"parse","fn":"ParseFooResponse","rsp":{status,headers,body}} -> which typed fields were filled
//
// Everything typed is constructed by reflection from JSON, so the program is independent of
// the document; the harness drives it with data.

import (
	"bufio"
	"bytes"
	"encoding/json"
	"fmt"
	"go/ast"
	"go/printer"
	"go/token"
	"io"
	"os"
	"os/exec"
	"path/filepath"
	"regexp"
	"sort"
	"strings"
	"sync"

	"github.com/getkin/kin-openapi/openapi3"
	"github.com/oapi-codegen/oapi-codegen/v2/pkg/codegen"
)

var allFrameworks = []string{"chi", "echo", "gin", "gorilla", "stdhttp", "fiber", "iris"}

func setFramework(o *codegen.Configuration, fw string) {
	switch fw {
	case "chi":
		o.Generate.ChiServer = true
	case "echo":
		o.Generate.EchoServer = true
	case "gin":
		o.Generate.GinServer = true
	case "gorilla":
		o.Generate.GorillaServer = true
	case "stdhttp":
		o.Generate.StdHTTPServer = true
	case "fiber":
		o.Generate.FiberServer = true
	case "iris":
		o.Generate.IrisServer = true
	}
}

type RunPkg struct {
	Name   string
	FW     string // "" = no server (client/models only)
	Strict bool
	Doc    J
	Cfg    codegen.Configuration
	// results
	Dir      string
	GenErr   error  // Generate returned an error / panicked
	Src      string // generated source
	BuildErr string // go build output when it failed
	Bin      string
	proc     *runProc
}

type runProc struct {
	cmd *exec.Cmd
	in  io.WriteCloser
	out *bufio.Reader
	mu  sync.Mutex
}

type RunKit struct {
	Root    string // scratch module root (go 1.22: std-http needs it)
	RootOld string // scratch module at go 1.20, for the other flavours
	pkgs    []*RunPkg
}

func NewRunKit(work string) (*RunKit, error) {
	root := filepath.Join(work, "runmod")
	if err := os.MkdirAll(root, 0o755); err != nil {
		return nil, err
	}
	gomod, err := os.ReadFile("/verif/harness/go.mod")
	if err != nil {
		return nil, err
	}
	gm := strings.Replace(string(gomod), "module verifharness", "module verifrun", 1)
	gm = strings.Replace(gm, "\ngo 1.20\n", "\ngo 1.22\n", 1) // net/http 1.22 routing patterns (std-http flavour) need go >= 1.22
	if err := os.WriteFile(filepath.Join(root, "go.mod"), []byte(gm), 0o644); err != nil {
		return nil, err
	}
	gosum, err := os.ReadFile("/verif/harness/go.sum")
	if err != nil {
		return nil, err
	}
	if err := os.WriteFile(filepath.Join(root, "go.sum"), gosum, 0o644); err != nil {
		return nil, err
	}
	// a second module at the project's own language version (go.mod of oapi-codegen: go 1.20) for every flavour but
	// std-http: loop variables are shared between iterations there, as they are for users who have not moved to go 1.22
	rootOld := filepath.Join(work, "runmod120")
	if err := os.MkdirAll(rootOld, 0o755); err != nil {
		return nil, err
	}
	gmOld := strings.Replace(string(gomod), "module verifharness", "module verifrun", 1)
	if err := os.WriteFile(filepath.Join(rootOld, "go.mod"), []byte(gmOld), 0o644); err != nil {
		return nil, err
	}
	if err := os.WriteFile(filepath.Join(rootOld, "go.sum"), gosum, 0o644); err != nil {
		return nil, err
	}
	return &RunKit{Root: root, RootOld: rootOld}, nil
}

func (k *RunKit) Add(p *RunPkg) *RunPkg {
	p.Dir = filepath.Join(k.Root, p.Name)
	if p.FW != "stdhttp" && k.RootOld != "" {
		p.Dir = filepath.Join(k.RootOld, p.Name)
	}
	k.pkgs = append(k.pkgs, p)
	return p
}

// Prepare generates, writes and builds all added packages (in parallel).
func (k *RunKit) Prepare() {
	var wg sync.WaitGroup
	sem := make(chan struct{}, 8)
	// generation is sequential: the generator has package-level state
	for _, p := range k.pkgs {
		if p.Src != "" || p.GenErr != nil {
			continue
		}
		k.generate(p)
	}
	for _, p := range k.pkgs {
		if p.GenErr != nil || p.Bin != "" || p.BuildErr != "" {
			continue
		}
		wg.Add(1)
		go func(p *RunPkg) {
			defer wg.Done()
			sem <- struct{}{}
			defer func() { <-sem }()
			k.build(p)
		}(p)
	}
	wg.Wait()
}

func (k *RunKit) generate(p *RunPkg) {
	spec, err := loadDoc(p.Doc)
	if err != nil {
		p.GenErr = fmt.Errorf("load: %w", err)
		return
	}
	cfg := p.Cfg
	cfg.PackageName = "main"
	setFramework(&cfg, p.FW)
	if p.Strict {
		cfg.Generate.Strict = true
	}
	// the configuration goes through Validate and UpdateDefaults first, as it does in the command-line tool (a
	// configuration that names its targets is left as it is by the defaults)
	if verr := cfg.Validate(); verr == nil {
		cfg = cfg.UpdateDefaults()
	}
	src, err := generate(spec, cfg)
	if err != nil {
		p.GenErr = err
		return
	}
	p.Src = src
}

func (k *RunKit) build(p *RunPkg) {
	if err := os.MkdirAll(p.Dir, 0o755); err != nil {
		p.BuildErr = err.Error()
		return
	}
	_ = os.WriteFile(filepath.Join(p.Dir, "gen.go"), []byte(p.Src), 0o644)
	f, fset, err := parseGo(p.Src)
	if err != nil {
		p.BuildErr = "parse: " + err.Error()
		return
	}
	prog, err := renderProgram(f, fset, p)
	if err != nil {
		p.BuildErr = "stub: " + err.Error()
		return
	}
	_ = os.WriteFile(filepath.Join(p.Dir, "prog.go"), []byte(prog), 0o644)
	bin := filepath.Join(p.Dir, "prog.bin")
	cmd := exec.Command("go", "build", "-gcflags=-e", "-o", bin, ".")
	cmd.Dir = p.Dir
	cmd.Env = append(os.Environ(), "GOFLAGS=-mod=mod", "GOPROXY=off", "GOSUMDB=off", "GOTOOLCHAIN=local")
	out, err := cmd.CombinedOutput()
	if err != nil {
		p.BuildErr = string(out)
		if p.BuildErr == "" {
			p.BuildErr = err.Error()
		}
		return
	}
	p.Bin = bin
}

func (p *RunPkg) Call(req J) (J, error) {
	if p.Bin == "" {
		return nil, fmt.Errorf("package %s not built", p.Name)
	}
	if p.proc == nil {
		cmd := exec.Command(p.Bin)
		in, _ := cmd.StdinPipe()
		out, _ := cmd.StdoutPipe()
		cmd.Stderr = io.Discard
		if err := cmd.Start(); err != nil {
			return nil, err
		}
		p.proc = &runProc{cmd: cmd, in: in, out: bufio.NewReaderSize(out, 1<<20)}
	}
	b, _ := json.Marshal(req)
	p.proc.mu.Lock()
	defer p.proc.mu.Unlock()
	if _, err := p.proc.in.Write(append(b, '\n')); err != nil {
		return nil, err
	}
	for {
		line, err := p.proc.out.ReadBytes('\n')
		if err != nil {
			p.proc = nil
			return nil, fmt.Errorf("program %s died: %v", p.Name, err)
		}
		line = bytes.TrimSpace(line)
		if !bytes.HasPrefix(line, []byte("@@")) {
			continue // framework chatter on stdout
		}
		var resp J
		if err := json.Unmarshal(line[2:], &resp); err != nil {
			return nil, err
		}
		return resp, nil
	}
}

func (k *RunKit) Close() {
	for _, p := range k.pkgs {
		if p.proc != nil {
			p.proc.in.Close()
			_ = p.proc.cmd.Wait()
		}
	}
}

// ---------- program rendering ----------

func nodeStr(fset *token.FileSet, n ast.Node) string {
	var b bytes.Buffer
	_ = printer.Fprint(&b, fset, n)
	return b.String()
}

type ifaceMethod struct {
	Name   string
	Params []struct{ Name, Type string }
	Result string
}

func ifaceMethodsFull(f *ast.File, fset *token.FileSet, name string) []ifaceMethod {
	var out []ifaceMethod
	for _, d := range f.Decls {
		gd, ok := d.(*ast.GenDecl)
		if !ok {
			continue
		}
		for _, s := range gd.Specs {
			ts, ok := s.(*ast.TypeSpec)
			if !ok || ts.Name.Name != name {
				continue
			}
			it, ok := ts.Type.(*ast.InterfaceType)
			if !ok {
				continue
			}
			for _, m := range it.Methods.List {
				ft, ok := m.Type.(*ast.FuncType)
				if !ok || len(m.Names) == 0 {
					continue
				}
				im := ifaceMethod{Name: m.Names[0].Name}
				for i, p := range ft.Params.List {
					ty := nodeStr(fset, p.Type)
					if len(p.Names) == 0 {
						im.Params = append(im.Params, struct{ Name, Type string }{fmt.Sprintf("a%d", i), ty})
					}
					for _, n := range p.Names {
						im.Params = append(im.Params, struct{ Name, Type string }{n.Name, ty})
					}
				}
				if ft.Results != nil && len(ft.Results.List) > 0 {
					rs := []string{}
					for _, r := range ft.Results.List {
						rs = append(rs, nodeStr(fset, r.Type))
					}
					im.Result = strings.Join(rs, ", ")
				}
				out = append(out, im)
			}
		}
	}
	return out
}

func topLevelFuncs(f *ast.File, pred func(string) bool) []string {
	var out []string
	for _, d := range f.Decls {
		fd, ok := d.(*ast.FuncDecl)
		if ok && fd.Recv == nil && pred(fd.Name.Name) {
			out = append(out, fd.Name.Name)
		}
	}
	sort.Strings(out)
	return out
}

func constNames(f *ast.File, pred func(string) bool) []string {
	var out []string
	for _, d := range f.Decls {
		gd, ok := d.(*ast.GenDecl)
		if !ok || gd.Tok != token.CONST {
			continue
		}
		for _, s := range gd.Specs {
			vs := s.(*ast.ValueSpec)
			for _, n := range vs.Names {
				if pred(n.Name) {
					out = append(out, n.Name)
				}
			}
		}
	}
	sort.Strings(out)
	return out
}

// visitTypes lists, per strict operation, the concrete response types (those with a
// Visit<Op>Response method) — used by the strict stub to return declared responses.
func visitTypes(f *ast.File, fset *token.FileSet) map[string][]string {
	out := map[string][]string{}
	for _, d := range f.Decls {
		fd, ok := d.(*ast.FuncDecl)
		if !ok || fd.Recv == nil || !strings.HasPrefix(fd.Name.Name, "Visit") || !strings.HasSuffix(fd.Name.Name, "Response") {
			continue
		}
		rt := nodeStr(fset, fd.Recv.List[0].Type)
		out[fd.Name.Name] = append(out[fd.Name.Name], rt)
	}
	for k := range out {
		sort.Strings(out[k])
	}
	return out
}

var frameworkParamTypes = map[string]bool{
	"http.ResponseWriter": true, "*http.Request": true, "echo.Context": true, "*gin.Context": true,
	"*fiber.Ctx": true, "iris.Context": true, "context.Context": true,
}

func renderProgram(f *ast.File, fset *token.FileSet, p *RunPkg) (string, error) {
	var b strings.Builder
	w := func(format string, a ...interface{}) { fmt.Fprintf(&b, format, a...) }
	hasClient := len(topLevelFuncs(f, func(n string) bool { return n == "NewClient" })) > 0
	fw := p.FW
	w("// Code generated by the /verif harness (runkit). DO NOT EDIT.\npackage main\n\nimport (\n")
	imports := []string{"bufio", "bytes", "context", "encoding/json", "fmt", "io", "net/http", "net/http/httptest", "os", "reflect", "sort", "strings"}
	for _, i := range imports {
		w("\t%q\n", i)
	}
	switch fw {
	case "chi":
		w("\t\"github.com/go-chi/chi/v5\"\n")
	case "echo":
		w("\t\"github.com/labstack/echo/v4\"\n")
	case "gin":
		w("\t\"github.com/gin-gonic/gin\"\n")
	case "gorilla":
		w("\t\"github.com/gorilla/mux\"\n")
	case "fiber":
		w("\t\"github.com/gofiber/fiber/v2\"\n")
	case "iris":
		w("\t\"github.com/kataras/iris/v12\"\n")
	}
	w("//EXTRA-IMPORTS\n)\n\n")
	w("var _ = bytes.NewReader\nvar _ = context.Background\nvar _ = httptest.NewRecorder\nvar _ = sort.Strings\nvar _ = strings.Join\nvar _ = io.ReadAll\nvar _ = reflect.TypeOf\nvar _ http.Handler\n")
	b.WriteString(progCommon)

	// reflection tables
	w("\nvar builders = map[string]interface{}{\n")
	if hasClient {
		for _, n := range topLevelFuncs(f, func(n string) bool {
			return strings.HasPrefix(n, "New") && strings.Contains(n, "Request")
		}) {
			w("\t%q: %s,\n", n, n)
		}
	}
	w("}\n\nvar parsers = map[string]interface{}{\n")
	if hasClient {
		for _, n := range topLevelFuncs(f, func(n string) bool { return strings.HasPrefix(n, "Parse") && strings.HasSuffix(n, "Response") }) {
			w("\t%q: %s,\n", n, n)
		}
	}
	w("}\n\nvar modelTypes = map[string]reflect.Type{\n")
	for _, n := range typeDeclNames(f) {
		w("\t%q: reflect.TypeOf((*%s)(nil)).Elem(),\n", n, n)
	}
	w("}\n\nvar scopeKeys = map[string]interface{}{\n")
	for _, n := range constNames(f, func(n string) bool { return strings.HasSuffix(n, "Scopes") }) {
		w("\t%q: %s,\n", n, n)
	}
	w("}\n\n")

	if fw == "" {
		w("func serve(req wireReq, opt serveOpt) map[string]interface{} { return map[string]interface{}{\"err\": \"no server in this package\"} }\n")
		return addExtraImports(b.String(), f, ""), nil
	}

	// ctx reader
	switch fw {
	case "chi", "gorilla", "stdhttp":
		w("func readScopes(r *http.Request) map[string]interface{} {\n\tm := map[string]interface{}{}\n\tfor k, key := range scopeKeys {\n\t\tif v := r.Context().Value(key); v != nil {\n\t\t\tm[k] = takeScopes(v)\n\t\t}\n\t}\n\treturn m\n}\n")
	case "echo":
		w("func readScopes(c echo.Context) map[string]interface{} {\n\tm := map[string]interface{}{}\n\tfor k, key := range scopeKeys {\n\t\tif v := c.Get(fmt.Sprint(key)); v != nil {\n\t\t\tm[k] = takeScopes(v)\n\t\t}\n\t}\n\treturn m\n}\n")
	case "gin":
		w("func readScopes(c *gin.Context) map[string]interface{} {\n\tm := map[string]interface{}{}\n\tfor k, key := range scopeKeys {\n\t\tif v, ok := c.Get(fmt.Sprint(key)); ok {\n\t\t\tm[k] = takeScopes(v)\n\t\t}\n\t}\n\treturn m\n}\n")
	case "fiber":
		w("func readScopes(c *fiber.Ctx) map[string]interface{} {\n\tm := map[string]interface{}{}\n\tfor k, key := range scopeKeys {\n\t\tif v := c.Context().UserValue(key); v != nil {\n\t\t\tm[k] = takeScopes(v)\n\t\t}\n\t}\n\treturn m\n}\n")
	case "iris":
		w("func readScopes(c iris.Context) map[string]interface{} {\n\tm := map[string]interface{}{}\n\tfor k, key := range scopeKeys {\n\t\tif v := c.Values().Get(fmt.Sprint(key)); v != nil {\n\t\t\tm[k] = takeScopes(v)\n\t\t}\n\t}\n\treturn m\n}\n")
	}

	// the stub
	w("\ntype stub struct{}\n\n")
	iface := "ServerInterface"
	if p.Strict {
		iface = "StrictServerInterface"
	}
	methods := ifaceMethodsFull(f, fset, iface)
	if len(methods) == 0 && !p.Strict {
		// a document without operations still generates an (empty) interface
	}
	vts := visitTypes(f, fset)
	var sigText strings.Builder
	for _, m := range methods {
		for _, prm := range m.Params {
			sigText.WriteString(" " + prm.Type + " ")
		}
		sigText.WriteString(" " + m.Result + " ")
		ps := []string{}
		args := []string{}
		first := ""
		for _, prm := range m.Params {
			ps = append(ps, prm.Name+" "+prm.Type)
			if frameworkParamTypes[prm.Type] {
				if first == "" || prm.Type == "*http.Request" {
					first = prm.Name
				}
				continue
			}
			args = append(args, fmt.Sprintf("%q: %s", prm.Name, prm.Name))
		}
		res := ""
		if m.Result != "" {
			res = " (" + m.Result + ")"
			if !strings.Contains(m.Result, ",") {
				res = " " + m.Result
			}
		}
		w("func (s *stub) %s(%s)%s {\n", m.Name, strings.Join(ps, ", "), res)
		if p.Strict {
			w("\trecordCall(%q, map[string]interface{}{%s}, scopesFromContext(%s))\n", m.Name, strings.Join(args, ", "), first)
			w("\trr := strictReply(%q, []interface{}{", m.Name)
			for _, t := range vts["Visit"+m.Name+"Response"] {
				w("new(%s), ", t)
			}
			w("})\n\tif ro, ok := rr.(%sResponseObject); ok {\n\t\treturn ro, strictErr()\n\t}\n\treturn nil, strictErr()\n}\n\n", m.Name)
			continue
		}
		w("\trecordCall(%q, map[string]interface{}{%s}, readScopes(%s))\n", m.Name, strings.Join(args, ", "), first)
		switch fw {
		case "chi", "gorilla", "stdhttp":
			w("\tw.WriteHeader(204)\n")
		case "echo":
			w("\treturn %s.NoContent(204)\n", first)
		case "gin":
			w("\t%s.Status(204)\n", first)
		case "fiber":
			w("\treturn %s.SendStatus(204)\n", first)
		case "iris":
			w("\t%s.StatusCode(204)\n", first)
		}
		w("}\n\n")
	}
	if p.Strict {
		b.WriteString(progStrict)
	}
	b.WriteString(progServe[fwFamily(fw, p.Strict)])
	return addExtraImports(b.String(), f, sigText.String()), nil
}

// addExtraImports imports into prog.go the packages of gen.go that the stub's signatures mention
// (openapi_types, time, externalRefN, ...).
func addExtraImports(prog string, f *ast.File, sigText string) string {
	var extra strings.Builder
	head := prog[:strings.Index(prog, "//EXTRA-IMPORTS")]
	for _, im := range f.Imports {
		path := strings.Trim(im.Path.Value, "\"")
		name := path[strings.LastIndex(path, "/")+1:]
		alias := ""
		if im.Name != nil {
			name = im.Name.Name
			alias = name + " "
		}
		if name == "_" || name == "." || strings.Contains(head, "\""+path+"\"") {
			continue
		}
		if regexp.MustCompile(`[^A-Za-z0-9_.]` + regexp.QuoteMeta(name) + `\.[A-Z]`).MatchString(sigText) {
			fmt.Fprintf(&extra, "\t%s%q\n", alias, path)
		}
	}
	return strings.Replace(prog, "//EXTRA-IMPORTS\n", extra.String(), 1)
}

func fwFamily(fw string, strict bool) string {
	s := fw
	if strict {
		s += "+strict"
	}
	return s
}

// openapi3 import keeper
var _ = openapi3.NewLoader

// ---------- compile failures attributed to operations ----------

type compileFail struct {
	Func string // enclosing top-level function / method / type of the error position in gen.go
	Msg  string // error message without position
}

// CompileFailures maps the `go build` errors of a package to the generated declarations they are in.
func (p *RunPkg) CompileFailures() []compileFail {
	if p.BuildErr == "" {
		return nil
	}
	f, fset, err := parseGo(p.Src)
	var out []compileFail
	seen := map[string]bool{}
	for _, line := range strings.Split(p.BuildErr, "\n") {
		line = strings.TrimSpace(line)
		if !strings.HasPrefix(line, "./gen.go:") && !strings.HasPrefix(line, "gen.go:") {
			if strings.HasPrefix(line, "./prog.go:") {
				out = append(out, compileFail{Func: "prog.go", Msg: line})
			}
			continue
		}
		rest := line[strings.Index(line, "gen.go:")+len("gen.go:"):]
		parts := strings.SplitN(rest, ":", 3)
		if len(parts) < 3 {
			continue
		}
		ln := 0
		fmt.Sscanf(parts[0], "%d", &ln)
		msg := strings.TrimSpace(parts[2])
		fn := "?"
		if err == nil {
			for _, d := range f.Decls {
				if fset.Position(d.Pos()).Line <= ln && ln <= fset.Position(d.End()).Line {
					switch dd := d.(type) {
					case *ast.FuncDecl:
						fn = dd.Name.Name
					case *ast.GenDecl:
						for _, sp := range dd.Specs {
							if ts, ok := sp.(*ast.TypeSpec); ok && fset.Position(ts.Pos()).Line <= ln && ln <= fset.Position(ts.End()).Line {
								fn = ts.Name.Name
							}
						}
					}
				}
			}
		}
		key := fn + "|" + msg
		if !seen[key] {
			seen[key] = true
			out = append(out, compileFail{Func: fn, Msg: msg})
		}
	}
	return out
}

func (p *RunPkg) reset() {
	p.Src, p.GenErr, p.BuildErr, p.Bin = "", nil, "", ""
}

// typeDeclNames: the non-generic top-level types of the generated file.
func typeDeclNames(f *ast.File) []string {
	var out []string
	for _, d := range f.Decls {
		gd, ok := d.(*ast.GenDecl)
		if !ok || gd.Tok != token.TYPE {
			continue
		}
		for _, sp := range gd.Specs {
			ts := sp.(*ast.TypeSpec)
			if ts.TypeParams != nil {
				continue
			}
			out = append(out, ts.Name.Name)
		}
	}
	sort.Strings(out)
	return out
}
