package main

import (
	"fmt"
	"net/url"
	"sort"
	"strings"

	"github.com/getkin/kin-openapi/openapi3"
	"github.com/oapi-codegen/oapi-codegen/v2/pkg/codegen"
)

// C03 — every operation is routed to its own handler with its own path variables.

var c03Methods = []string{"GET", "POST", "PUT", "DELETE", "PATCH", "HEAD", "OPTIONS", "TRACE", "CONNECT"}

func c03CorrTemplates(ctx *Ctx) error {
	alphabet := []byte{'{', '}', '*', '.', ';', '?', 'a', '/'}
	maxLen := 5
	if ctx.Thorough() {
		maxLen = 7
	}
	var check func(s string) error
	check = func(s string) error {
		var m struct {
			Params []string `json:"params"`
			Chi    string   `json:"chi"`
			Std    string   `json:"std"`
			Colon  string   `json:"colon"`
			Fmt    string   `json:"fmt"`
		}
		if err := ctx.Model(map[string]interface{}{"fn": "scan", "uri": hx(s)}, &m); err != nil {
			return err
		}
		ctx.Res.Evaluations++
		ctx.Res.Distribution["corr:template"]++
		impl := codegen.OrderedParamsFromUri(s)
		mp := []string{}
		for _, p := range m.Params {
			mp = append(mp, unhx(p))
		}
		if Canon(orEmpty(impl)) != Canon(mp) {
			ctx.Res.Disagree("CORR orderedParams (Model/Paths.lean scan vs pathParamRE)", J{"uri": s}, mp, impl)
		}
		for name, f := range map[string]func(string) string{"chi": codegen.SwaggerUriToChiUri, "gorilla": codegen.SwaggerUriToGorillaUri} {
			if got := f(s); got != unhx(m.Chi) {
				ctx.Res.Disagree("CORR translate {name} ("+name+")", J{"uri": s}, unhx(m.Chi), got)
			}
		}
		if got := codegen.SwaggerUriToStdHttpUri(s); got != unhx(m.Std) {
			ctx.Res.Disagree("CORR translate {name}, {$} after a final slash (stdhttp)", J{"uri": s}, unhx(m.Std), got)
		}
		for name, f := range map[string]func(string) string{"echo": codegen.SwaggerUriToEchoUri, "gin": codegen.SwaggerUriToGinUri, "fiber": codegen.SwaggerUriToFiberUri, "iris": codegen.SwaggerUriToIrisUri} {
			if got := f(s); got != unhx(m.Colon) {
				ctx.Res.Disagree("CORR translate :name ("+name+")", J{"uri": s}, unhx(m.Colon), got)
			}
		}
		if got := codegen.ReplacePathParamsWithStr(s); got != unhx(m.Fmt) {
			ctx.Res.Disagree("CORR translate %s (client format string)", J{"uri": s}, unhx(m.Fmt), got)
		}
		return nil
	}
	// exhaustive over the alphabet
	var rec func(prefix []byte) error
	rec = func(prefix []byte) error {
		if err := check(string(prefix)); err != nil {
			return err
		}
		if len(prefix) == maxLen {
			return nil
		}
		for _, c := range alphabet {
			if err := rec(append(append([]byte{}, prefix...), c)); err != nil {
				return err
			}
		}
		return nil
	}
	if err := rec(nil); err != nil {
		return err
	}
	ctx.Res.Extra["templates_exhaustive_maxlen"] = maxLen
	// seeded realistic templates
	for i := 0; i < ctx.N(2000, 20000); i++ {
		r := ctx.Rng.Fork()
		var sb strings.Builder
		for k := 0; k < 1+r.Intn(5); k++ {
			sb.WriteString("/")
			switch r.Intn(6) {
			case 0:
				sb.WriteString("{" + []string{"id", "user_id", "user-id", "x.y", "é", "1a"}[r.Intn(6)] + "}")
			case 1:
				sb.WriteString("{" + []string{".", ";", "?"}[r.Intn(3)] + "p" + []string{"", "*"}[r.Intn(2)] + "}")
			case 2:
				sb.WriteString("pre{id}post")
			case 3:
				sb.WriteString([]string{"{", "}", "{}", "{*}", "{{a}}", "{a}{b}", "{a*}*", "{.}", "{;*}"}[r.Intn(9)])
			default:
				sb.WriteString([]string{"items", "v1", "a-b", "x_y"}[r.Intn(4)])
			}
		}
		if err := check(sb.String()); err != nil {
			return err
		}
	}
	// SortParamsByPath
	for i := 0; i < ctx.N(1500, 15000); i++ {
		r := ctx.Rng.Fork()
		pool := []string{"a", "b", "c", "d", "id"}
		nv := r.Intn(5)
		perm := r.Perm(len(pool))
		var path strings.Builder
		var names []string
		for k := 0; k < nv; k++ {
			path.WriteString("/s/{" + pool[perm[k]] + "}")
			names = append(names, pool[perm[k]])
		}
		decl := append([]string{}, names...)
		// declared: a shuffle, sometimes with one missing / extra / duplicated
		sh := r.Perm(len(decl))
		d2 := []string{}
		for _, j := range sh {
			d2 = append(d2, decl[j])
		}
		switch r.Intn(6) {
		case 0:
			if len(d2) > 0 {
				d2 = d2[1:]
			}
		case 1:
			d2 = append(d2, "zz")
		case 2:
			if len(d2) > 0 {
				d2[0] = "zz"
			}
		}
		var in []codegen.ParameterDefinition
		for _, n := range d2 {
			in = append(in, codegen.ParameterDefinition{ParamName: n})
		}
		out, err := codegen.SortParamsByPath(path.String(), in)
		implStr := "error"
		if err == nil {
			ns := []string{}
			for _, p := range out {
				ns = append(ns, p.ParamName)
			}
			implStr = Canon(ns)
		}
		var m struct {
			Ok    []int   `json:"ok"`
			Error *string `json:"error"`
		}
		if err := ctx.Model(map[string]interface{}{"fn": "sortParams", "path": hx(path.String()), "names": hxs(d2)}, &m); err != nil {
			return err
		}
		modelStr := "error"
		if m.Error == nil {
			ns := []string{}
			for _, i := range m.Ok {
				ns = append(ns, d2[i])
			}
			modelStr = Canon(ns)
		}
		ctx.Res.Evaluations++
		ctx.Res.Distribution["corr:sortParams"]++
		if implStr != modelStr {
			ctx.Res.Disagree("CORR sortParamsByPath", J{"path": path.String(), "declared": d2}, modelStr, implStr)
		}
		// the property's oracle on the implementation: when it succeeds the order is the path's order
		if err == nil && implStr != Canon(orEmpty(names)) {
			ctx.Res.Violate("sort-order:"+Canon(d2), fmt.Sprintf("SortParamsByPath(%s, %v) = %s, path order is %v", path.String(), d2, implStr, names), J{"path": path.String(), "declared": d2})
		}
	}
	return nil
}

// ---------- routing documents ----------

type rSeg struct {
	Var bool   `json:"var"`
	S   string `json:"s"`
}
type rOp struct {
	ID     string
	Method string
	Segs   []rSeg
	// how the path parameters are declared: indices into the variables, split between path level and operation level
	PathLevel []string
	OpLevel   []string
}

func (o rOp) Path() string {
	var sb strings.Builder
	for _, s := range o.Segs {
		sb.WriteString("/")
		if s.Var {
			sb.WriteString("{" + s.S + "}")
		} else {
			sb.WriteString(s.S)
		}
	}
	return sb.String()
}

func (o rOp) Vars() []string {
	var vs []string
	for _, s := range o.Segs {
		if s.Var {
			vs = append(vs, s.S)
		}
	}
	return vs
}

var depthVar = []string{"id", "sub", "k3", "k4", "k5"}

// c03Doc builds a document: a tree of paths with static/templated siblings and shared prefixes.
func c03Doc(r *Rng, adversarial bool) ([]rOp, J) {
	type tpl []rSeg
	var tpls []tpl
	statics := []string{"a", "b", "items", "v1.0", "x-y", "c_d"}
	seen := map[string]bool{}
	// two templates are ambiguous when both can match one path and neither is more specific
	// (net/http's ServeMux refuses to register such a pair; gin/iris do not backtrack on them)
	ambiguous := func(a, b tpl) bool {
		if len(a) != len(b) {
			return false
		}
		aMore, bMore := false, false
		for i := range a {
			switch {
			case !a[i].Var && !b[i].Var:
				if a[i].S != b[i].S {
					return false
				}
			case !a[i].Var && b[i].Var:
				aMore = true
			case a[i].Var && !b[i].Var:
				bMore = true
			}
		}
		return aMore && bMore
	}
	add := func(t tpl) {
		k := Canon(t)
		if seen[k] {
			return
		}
		if !adversarial {
			for _, o := range tpls {
				if ambiguous(o, t) {
					return
				}
			}
		}
		seen[k] = true
		tpls = append(tpls, t)
	}
	n := 4 + r.Intn(8)
	for tries := 0; len(tpls) < n && tries < 200; tries++ {
		depth := 1 + r.Intn(5)
		t := tpl{}
		vars := 0
		for d := 0; d < depth; d++ {
			if d > 0 && r.Chance(50) && vars < 4 {
				name := depthVar[d]
				if adversarial && r.Chance(30) {
					name = []string{"user-id", "x.y", "é"}[r.Intn(3)] + fmt.Sprint(d)
				}
				t = append(t, rSeg{true, name})
				vars++
			} else {
				t = append(t, rSeg{false, statics[r.Intn(len(statics))]})
			}
		}
		// a variable name at a given depth under a given prefix must be the same for all templates (routers refuse otherwise)
		add(t)
		// static / templated sibling of the last segment
		if r.Chance(50) && len(t) > 1 {
			sib := append(tpl{}, t...)
			if t[len(t)-1].Var {
				sib[len(sib)-1] = rSeg{false, statics[r.Intn(len(statics))]}
			} else if vars < 4 {
				sib[len(sib)-1] = rSeg{true, depthVar[len(t)-1]}
			}
			add(sib)
		}
	}
	// a trailing slash is part of the path: some templates end in one (modelled as a last, empty static segment),
	// unless the same template without it is present too (fiber and gin treat the two alike unless configured otherwise)
	for i, t := range tpls {
		if !r.Chance(20) {
			continue
		}
		k := Canon(append(append(tpl{}, t...), rSeg{false, ""}))
		if seen[k] {
			continue
		}
		seen[k] = true
		tpls[i] = append(append(tpl{}, t...), rSeg{false, ""})
	}
	// consistency of variable names per position prefix: rename to depth names unless adversarial
	var ops []rOp
	paths := J{}
	id := 0
	for _, t := range tpls {
		nm := 1 + r.Intn(3)
		perm := r.Perm(len(c03Methods))
		if !adversarial {
			// HEAD next to a GET sibling is refused by net/http's ServeMux at registration (known finding);
			// keep it out of the plain documents so that the std-http flavour is exercised at all
			var p2 []int
			for _, i := range perm {
				if c03Methods[i] != "HEAD" {
					p2 = append(p2, i)
				}
			}
			perm = p2
		}
		pi := J{}
		o0 := rOp{Segs: t}
		vars := o0.Vars()
		// path-level declaration of a random subset, in random order
		var pl []string
		for _, v := range vars {
			if r.Chance(40) {
				pl = append(pl, v)
			}
		}
		shuffle(r, pl)
		// some path-level declarations are overridden by every operation of the path with another type: the
		// path-level one (integer) must never take effect, the values sent are not numbers
		overridden := map[string]bool{}
		if len(pl) > 0 {
			ps := []interface{}{}
			for _, v := range pl {
				ty := "string"
				if r.Chance(50) {
					overridden[v] = true
					ty = "integer"
				}
				ps = append(ps, J{"name": v, "in": "path", "required": true, "schema": J{"type": ty}})
			}
			pi["parameters"] = ps
		}
		for k := 0; k < nm; k++ {
			m := c03Methods[perm[k]]
			o := rOp{ID: fmt.Sprintf("Op%d", id), Method: m, Segs: t, PathLevel: pl}
			id++
			var ol []string
			for _, v := range vars {
				if !contains(pl, v) || overridden[v] || r.Chance(30) { // sometimes overriding the path-level one
					ol = append(ol, v)
				}
			}
			shuffle(r, ol)
			o.OpLevel = ol
			op := J{"operationId": o.ID, "responses": J{"204": J{"description": "d"}}}
			{
				ps := []interface{}{}
				// a parameter of another location with the name of a path variable, declared before every path parameter
				// of the operation (OpenAPI tells parameters apart by name AND location): an optional integer that the
				// requests never send
				if len(vars) > 0 && r.Chance(35) {
					loc := r.Pick([]string{"query", "header", "cookie"})
					ps = append(ps, J{"name": vars[r.Intn(len(vars))], "in": loc, "schema": J{"type": "integer"}})
				}
				for _, v := range ol {
					ps = append(ps, J{"name": v, "in": "path", "required": true, "schema": J{"type": "string"}})
				}
				if len(ps) > 0 {
					op["parameters"] = ps
				}
			}
			pi[strings.ToLower(m)] = op
			ops = append(ops, o)
		}
		paths[o0.Path()] = pi
	}
	return ops, J{"openapi": "3.0.3", "info": J{"title": "t", "version": "1"}, "paths": paths}
}

func shuffle(r *Rng, xs []string) {
	for i := len(xs) - 1; i > 0; i-- {
		j := r.Intn(i + 1)
		xs[i], xs[j] = xs[j], xs[i]
	}
}

// statement-level oracle: which operation must run and with which arguments
func c03Expect(ops []rOp, method string, segs []string) (string, map[string]string) {
	var best *rOp
	var bestBind map[string]string
	for i := range ops {
		o := &ops[i]
		if o.Method != method || len(o.Segs) != len(segs) {
			continue
		}
		bind := map[string]string{}
		ok := true
		for k, s := range o.Segs {
			if s.Var {
				if segs[k] == "" {
					ok = false
					break
				}
				bind[s.S] = segs[k]
			} else if s.S != segs[k] {
				ok = false
				break
			}
		}
		if !ok {
			continue
		}
		if best == nil {
			best, bestBind = o, bind
			continue
		}
		// prefer static at the first position where the kinds differ
		for k := range o.Segs {
			if o.Segs[k].Var != best.Segs[k].Var {
				if !o.Segs[k].Var {
					best, bestBind = o, bind
				}
				break
			}
		}
	}
	if best == nil {
		return "", nil
	}
	return best.ID, bestBind
}

// c03CombineCorr: codegen.CombineOperationParameters vs Model/Combine.lean on seeded declaration lists (few names and
// locations, so that overrides and repeats are frequent); the statement on the result: the operation's declaration of a
// (location, name) is the one in the list.
func c03CombineCorr(ctx *Ctx, n int) error {
	locs := []string{"path", "query", "header", "cookie"}
	names := []string{"id", "limit", "X-A"}
	var prevG []codegen.ParameterDefinition
	var prevGe []interface{}
	for i := 0; i < n; i++ {
		r := ctx.Rng.Fork()
		mk := func(k int, base int) ([]codegen.ParameterDefinition, []interface{}) {
			var ps []codegen.ParameterDefinition
			var enc []interface{}
			for j := 0; j < k; j++ {
				li, ni := r.Intn(len(locs)), r.Intn(len(names))
				tag := base + j
				// the tag rides in the Go name of the parameter definition's spec: use ParamName + a marker kept aside
				ps = append(ps, codegen.ParameterDefinition{ParamName: names[ni], In: locs[li], Required: tag%2 == 0, Spec: &openapi3.Parameter{Description: fmt.Sprint(tag)}})
				row := []int{li, tag}
				row = append(row, cps(names[ni])...)
				enc = append(enc, row)
			}
			return ps, enc
		}
		g, ge := mk(r.Intn(4), 100)
		l, le := mk(r.Intn(4), 200)
		if i%2 == 1 && i > 0 && prevG != nil {
			// the next operation of the same path item: the very slice the previous call was given (the generator passes
			// the path item's list to every operation of the path)
			g, ge = prevG, prevGe
		}
		snapshot := func(ps []codegen.ParameterDefinition) string {
			var t []string
			for _, p := range ps {
				t = append(t, fmt.Sprintf("%s/%s/%v/%s", p.In, p.ParamName, p.Required, p.Spec.Description))
			}
			return strings.Join(t, ",")
		}
		gBefore, lBefore := snapshot(g), snapshot(l)
		got, err := codegen.CombineOperationParameters(g, l)
		if gAfter, lAfter := snapshot(g), snapshot(l); gAfter != gBefore || lAfter != lBefore {
			ctx.Res.Violate("combine:arguments-modified", fmt.Sprintf("CombineOperationParameters changes the lists it is given: path item [%s] => [%s], operation [%s] => [%s] (the path item's list is shared by every operation of the path)", gBefore, gAfter, lBefore, lAfter), J{"path-item": ge, "operation": le})
		}
		prevG, prevGe = g, ge
		var m struct {
			Ok    []int  `json:"ok"`
			Error string `json:"error"`
		}
		if ge == nil {
			ge = []interface{}{}
		}
		if le == nil {
			le = []interface{}{}
		}
		if e := ctx.Model(J{"fn": "combineParams", "global": ge, "local": le}, &m); e != nil {
			return e
		}
		c := J{"path-item": ge, "operation": le}
		ctx.Res.Eval(c, len(g)+len(l) > 0)
		ctx.Res.Count("corr:combine")
		implS, modelS := "error", "error"
		if err == nil {
			var tags []string
			for _, p := range got {
				tags = append(tags, p.Spec.Description)
			}
			implS = strings.Join(tags, ",")
		}
		if m.Error == "" {
			var tags []string
			for _, t := range m.Ok {
				tags = append(tags, fmt.Sprint(t))
			}
			modelS = strings.Join(tags, ",")
		}
		if implS != modelS {
			ctx.Res.Disagree("CORR CombineOperationParameters vs Combine.combine", c, modelS, implS)
		}
		if err == nil {
			// the statement: for every (location, name) the operation declares, the combined list holds that declaration
			for _, p := range l {
				found := false
				for _, q := range got {
					if q.In == p.In && q.ParamName == p.ParamName {
						found = q.Spec.Description == p.Spec.Description
					}
				}
				if !found {
					ctx.Res.Violate("combine:operation-declaration-lost", fmt.Sprintf("the operation declares %s/%s, the combined list holds another declaration of it (or none)", p.In, p.ParamName), J{"case": c})
				}
			}
		}
	}
	return nil
}

func runC03(ctx *Ctx) error {
	ctx.Res.Rule = "CORR: every string over {'{','}','*','.',';','?','a','/'} up to length 5 (thorough 7) and seeded templates through OrderedParamsFromUri / the seven SwaggerUriTo*Uri / ReplacePathParamsWithStr vs the Lean scanner; SortParamsByPath on shuffled, missing, extra declarations; CombineOperationParameters on seeded path-item / operation declaration lists vs Combine.combine. RUN: seeded documents (4-12 path templates, 0-4 variables, static/templated siblings, shared prefixes, nine methods, path-level/operation-level declarations in every order) x requests (matching with plain/escaped/non-ASCII values, wrong method, extra/missing segment, unknown static) x 7 frameworks x with/without base URL x the entry points of the generated package (HandlerWithOptions / HandlerFromMux / HandlerFromMuxWithBaseURL / Handler, RegisterHandlers / …WithBaseURL / …WithOptions); observed handler and arguments vs the statement and vs Lean route; non-trivial = RUN requests and templates containing a brace Session 9: a query/header/cookie parameter with the name of a path variable declared first; a generation with user templates for the routing template of every framework precedes the examined ones."
	if err := c03CorrTemplates(ctx); err != nil {
		return err
	}
	if err := c03CombineCorr(ctx, ctx.N(2000, 30000)); err != nil {
		return err
	}
	if err := c03IntegerPaths(ctx); err != nil {
		return err
	}
	kit, err := NewRunKit(ctx.Work)
	if err != nil {
		return err
	}
	defer kit.Close()
	ndocs := ctx.N(3, 20)
	type docT struct {
		ops  []rOp
		doc  J
		pkgs map[string]*RunPkg
	}
	var docs []docT
	for d := 0; d < ndocs; d++ {
		r := ctx.Rng.Fork()
		ops, doc := c03Doc(r, d%4 == 3)
		dt := docT{ops: ops, doc: doc, pkgs: map[string]*RunPkg{}}
		for _, fw := range allFrameworks {
			var cfg codegen.Configuration
			cfg.Generate.Models = true
			strict := d%2 == 1
			dt.pkgs[fw] = kit.Add(&RunPkg{Name: fmt.Sprintf("c03_%d_%s", d, fw), FW: fw, Strict: strict, Doc: doc, Cfg: cfg})
		}
		docs = append(docs, dt)
	}
	// an earlier generation of the process replaced the routing templates of every framework by templates of its own
	// (they register nothing): the servers examined below are generated afterwards, with the built-in templates
	{
		var uc codegen.Configuration
		uc.PackageName = "usertpl"
		uc.Generate.Models = true
		uc.OutputOptions.UserTemplates = map[string]string{}
		for _, tn := range []string{"chi/chi-handler.tmpl", "echo/echo-register.tmpl", "fiber/fiber-handler.tmpl", "gin/gin-register.tmpl",
			"gorilla/gorilla-register.tmpl", "iris/iris-handler.tmpl", "stdhttp/std-http-handler.tmpl"} {
			uc.OutputOptions.UserTemplates[tn] = "// routes of the other package\n"
		}
		for _, fw := range allFrameworks {
			c := uc
			setFramework(&c, fw)
			if spec, err := loadDoc(docs[0].doc); err == nil {
				_, _ = generate(spec, c)
				ctx.Res.Count("generation-with-user-routing-templates-first")
			}
		}
	}
	kit.Prepare()
	values := []string{"v1", "x y", "é", "a+b", "a:b", "42", "ITEMS"}
	for di, dt := range docs {
		// Lean view of the document
		mindex := map[string]int{}
		for i, m := range c03Methods {
			mindex[m] = i
		}
		var lops []J
		for i, o := range dt.ops {
			segs := []J{}
			for _, s := range o.Segs {
				segs = append(segs, J{"var": s.Var, "s": hx(s.S)})
			}
			lops = append(lops, J{"method": mindex[o.Method], "segs": segs, "id": i})
		}
		// requests
		type reqT struct {
			method string
			segs   []string
			kind   string
		}
		var reqs []reqT
		r := NewRng(uint64(ctx.Seed)*31 + uint64(di))
		for _, o := range dt.ops {
			segs := []string{}
			for _, s := range o.Segs {
				if s.Var {
					segs = append(segs, values[r.Intn(len(values))]+fmt.Sprint(len(segs)))
				} else {
					segs = append(segs, s.S)
				}
			}
			reqs = append(reqs, reqT{o.Method, segs, "match"})
			wm := c03Methods[r.Intn(len(c03Methods))]
			reqs = append(reqs, reqT{wm, segs, "method"})
			if last := o.Segs[len(o.Segs)-1]; !last.Var && last.S == "" {
				// a template ending in a slash: only the exact path is asked for (whether /a and /a/ are told apart is the
				// router's configuration, not the generated code's)
				continue
			}
			reqs = append(reqs, reqT{o.Method, append(append([]string{}, segs...), "extra"), "extra-segment"})
			if len(segs) > 1 {
				reqs = append(reqs, reqT{o.Method, segs[:len(segs)-1], "missing-segment"})
			}
			alt := append([]string{}, segs...)
			alt[0] = "nope"
			reqs = append(reqs, reqT{o.Method, alt, "unknown-static"})
			// a value equal to a static sibling's text
			if len(segs) > 1 && o.Segs[len(segs)-1].Var {
				sib := append([]string{}, segs...)
				sib[len(sib)-1] = "items"
				reqs = append(reqs, reqT{o.Method, sib, "sibling-text"})
			}
		}
		for _, fw := range allFrameworks {
			p := dt.pkgs[fw]
			if p.GenErr != nil {
				ctx.Res.Violate("c03:generate:"+fw, "Generate failed on a routing document: "+p.GenErr.Error(), J{"doc": dt.doc})
				continue
			}
			if p.BuildErr != "" {
				ctx.Res.Violate("c03:compile:"+fw, "routing document does not compile: "+firstLines(p.BuildErr, 4), J{"doc": dt.doc})
				continue
			}
			for _, base := range []string{"", "/api"} {
				for _, rq := range reqs {
					esc := []string{}
					for _, s := range rq.segs {
						esc = append(esc, url.PathEscape(s))
					}
					u := "http://h" + base + "/" + strings.Join(esc, "/")
					resp, err := p.Call(J{"do": "serve", "req": J{"method": rq.method, "url": u}, "opt": J{"stop": -1, "sstop": -1, "base": base, "entry": (len(rq.segs) + len(rq.method)) % 2, "ctype": rq.kind,
						// some servers are built with three (pass-through) middlewares: routing is the same with them
						"mw": map[bool]int{true: 3, false: 0}[(len(rq.segs)+len(rq.method))%2 == 0 && len(rq.segs)%2 == 1]}})
					if err != nil {
						return err
					}
					c := J{"fw": fw, "doc": di, "method": rq.method, "path": rq.segs, "base": base, "kind": rq.kind}
					ctx.Res.Eval(c, true)
					ctx.Res.Count("run:" + rq.kind)
					wantID, wantBind0 := c03Expect(dt.ops, rq.method, rq.segs)
					// the argument "named after the variable" carries the variable's Go identifier
					wantBind := map[string]string{}
					// argument names are compared without regard to the case of letters: a strict request object names the
					// variable by its Go field (XY1, É2), the plain interface by its Go argument (xY1, é2)
					for k, v := range wantBind0 {
						wantBind[strings.ToLower(goVarName(k))] = v
					}
					gotID, gotBind := "", map[string]string{}
					if resp["regpanic"] != nil {
						kind := "conflict"
						if strings.Contains(fmt.Sprint(resp["regpanic"]), "bad wildcard name") {
							kind = "wildcard-name"
						}
						ctx.Res.Violate("c03:registration-panic:"+fw+":"+kind, fmt.Sprintf("%s: route registration panics: %v", fw, resp["regpanic"]), J{"doc": dt.doc})
						break
					}
					calls, _ := resp["calls"].([]interface{})
					if len(calls) > 1 {
						ctx.Res.Violate("c03:two-handlers:"+fw, "more than one handler ran for one request", J{"doc": dt.doc, "case": c})
					}
					if len(calls) >= 1 {
						call := calls[0].(map[string]interface{})
						gotID, _ = call["op"].(string)
						args, _ := call["args"].(map[string]interface{})
						if rqo, ok := args["request"].(map[string]interface{}); ok { // strict: request object, fields are Go names
							for k, v := range rqo {
								gotBind[strings.ToLower(k)] = fmt.Sprint(v)
							}
						} else {
							for k, v := range args {
								gotBind[strings.ToLower(k)] = fmt.Sprint(v)
							}
						}
						// the parameter object (query/header/cookie parameters, never sent here) is no path variable
						delete(gotBind, "params")
					}
					if gotID != wantID || (wantID != "" && Canon(gotBind) != Canon(wantBind)) {
						cls := "wrong-args"
						switch {
						case gotID == "" && wantID != "":
							cls = "no-handler"
						case gotID != "" && wantID == "":
							cls = "unexpected-handler"
						case gotID != wantID:
							cls = "wrong-handler"
						}
						sig := fmt.Sprintf("route:%s:%s:%s:%s", fw, rq.kind, cls, rq.method)
						if advPath(dt.ops, wantID, gotID) {
							sig += ":advname"
						}
						for _, o := range dt.ops {
							if last := o.Segs[len(o.Segs)-1]; (o.ID == wantID || o.ID == gotID) && !last.Var && last.S == "" {
								sig += ":trailing-slash"
								break
							}
						}
						ctx.Res.Violate(sig, fmt.Sprintf("%s %s %s: handler %q args %v; the document prescribes %q args %v", fw, rq.method, u, gotID, gotBind, wantID, wantBind),
							J{"doc": dt.doc, "case": c, "resp": resp})
					}
					// correspondence with the Lean router
					var m *struct {
						ID     int      `json:"id"`
						Names  []string `json:"names"`
						Values []string `json:"values"`
					}
					if err := ctx.Model(map[string]interface{}{"fn": "route", "ops": lops, "method": mindex[rq.method], "path": hxs(rq.segs)}, &m); err != nil {
						return err
					}
					mid, mbind := "", map[string]string{}
					if m != nil {
						mid = dt.ops[m.ID].ID
						for i := range m.Names {
							mbind[unhx(m.Names[i])] = unhx(m.Values[i])
						}
					}
					if mid != wantID || (wantID != "" && Canon(mbind) != Canon(wantBind0)) {
						ctx.Res.Disagree("CORR route (Model/Paths.lean route vs the statement's oracle)", c, J{"id": mid, "bind": mbind}, J{"id": wantID, "bind": wantBind})
					}
				}
			}
		}
	}
	return nil
}

func goVarName(param string) string {
	return codegen.ParameterDefinition{ParamName: param, Spec: &openapi3.Parameter{Name: param}}.GoVariableName()
}

// advPath: does the wanted or served operation have a variable whose name is not a plain identifier?
func advPath(ops []rOp, ids ...string) bool {
	for _, o := range ops {
		for _, id := range ids {
			if o.ID != id {
				continue
			}
			for _, v := range o.Vars() {
				if strings.ContainsAny(v, "-.") || v != strings.ToValidUTF8(v, "") || !isASCII(v) {
					return true
				}
			}
		}
	}
	return false
}

func isASCII(s string) bool {
	for i := 0; i < len(s); i++ {
		if s[i] >= 0x80 {
			return false
		}
	}
	return true
}

func init() { register("c03", runC03) }

var _ = sort.Strings

// c03IntegerPaths: path variables of type integer take negative values as well: the request is routed to the operation
// and the value arrives in the argument named after the variable (a router pattern narrowed to digits would lose it).
func c03IntegerPaths(ctx *Ctx) error {
	kit, err := NewRunKit(ctx.Work + "/c03int")
	if err != nil {
		return err
	}
	defer kit.Close()
	ip := func(n string) J { return J{"name": n, "in": "path", "required": true, "schema": J{"type": "integer"}} }
	ok := J{"204": J{"description": "d"}}
	doc := J{"openapi": "3.0.3", "info": J{"title": "t", "version": "1"}, "paths": J{
		"/accounts/{id}/balance": J{"get": J{"operationId": "getBalance", "parameters": []interface{}{ip("id")}, "responses": ok}},
		"/grid/{x}/{y}":          J{"get": J{"operationId": "getCell", "parameters": []interface{}{ip("y"), ip("x")}, "responses": ok}},
	}}
	var pkgs []*RunPkg
	for _, fw := range allFrameworks {
		var cfg codegen.Configuration
		cfg.Generate.Models = true
		pkgs = append(pkgs, kit.Add(&RunPkg{Name: "c03int_" + fw, FW: fw, Doc: doc, Cfg: cfg}))
	}
	kit.Prepare()
	cases := []struct {
		url  string
		op   string
		args J
	}{{"http://h/accounts/-7/balance", "GetBalance", J{"id": -7}}, {"http://h/accounts/0/balance", "GetBalance", J{"id": 0}}, {"http://h/accounts/12/balance", "GetBalance", J{"id": 12}},
		{"http://h/grid/-3/4", "GetCell", J{"x": -3, "y": 4}}, {"http://h/grid/5/-6", "GetCell", J{"x": 5, "y": -6}}}
	for i, p := range pkgs {
		fw := allFrameworks[i]
		if p.GenErr != nil || p.BuildErr != "" {
			ctx.Res.Violate("integer-path:not-built:"+fw, fmt.Sprintf("operations with integer path variables are not generated or do not build: %v %s", p.GenErr, firstLines(p.BuildErr, 3)), J{"doc": doc, "fw": fw})
			continue
		}
		for _, c := range cases {
			resp, err := p.Call(J{"do": "serve", "req": J{"method": "GET", "url": c.url}, "opt": J{"stop": -1, "sstop": -1}})
			if err != nil {
				return err
			}
			ctx.Res.Eval(J{"fw": fw, "integer-path": c.url}, true)
			ctx.Res.Count("integer-path")
			gotOp, got := "", J{}
			if call, one := firstCall(resp); one {
				gotOp, _ = call["op"].(string)
				if args, _ := call["args"].(map[string]interface{}); args != nil {
					for k, v := range args {
						got[k] = v
					}
				}
			}
			if gotOp != c.op || Canon(jsonRoundTrip(got)) != Canon(jsonRoundTrip(c.args)) {
				ctx.Res.Violate("integer-path:"+fw, fmt.Sprintf("%s GET %s: handler %q args %s; the document prescribes %q args %s (status %v)", fw, c.url, gotOp, Canon(got), c.op, Canon(c.args), resp["status"]), J{"doc": doc, "fw": fw, "url": c.url, "resp": resp})
			}
		}
	}
	return nil
}
