package main

import (
	"fmt"
	"go/ast"
	"go/types"
	"reflect"
	"sort"
	"strings"

	"github.com/oapi-codegen/oapi-codegen/v2/pkg/codegen"
)

// corrFieldTags: the struct tag GenFieldsFromProperties writes for one member vs Model/FieldTags.lean, on seeded members:
// required / readOnly / writeOnly / nullable, form bodies, x-omitempty and x-go-json-ignore (absent, false, true, of a
// wrong type), x-oapi-codegen-extra-tags (0-4 keys incl. json, form and keys that sort around them), the two options that
// enter the rule. The statement on the real result: the tag parses, every key once, the extra tags are there, the others
// are what they are without the extension.
func corrFieldTags(ctx *Ctx, n int) error {
	defer codegen.VerifSetOptions(codegen.Configuration{})
	extraKeys := []string{"validate", "json", "form", "db", "a", "yaml", "jsonx", "bson"}
	tagOf := func(fields []string) string {
		f := fields[0]
		i, j := strings.Index(f, "`"), strings.LastIndex(f, "`")
		if i < 0 || j <= i {
			return "<no tag>"
		}
		return f[i+1 : j]
	}
	tri := func(r *Rng) (int, interface{}, bool) {
		switch r.Intn(4) {
		case 0:
			return 1, false, true
		case 1:
			return 2, true, true
		case 2:
			return 0, "yes", true // present but not a boolean: ignored
		}
		return 0, nil, false
	}
	for i := 0; i < n; i++ {
		r := ctx.Rng.Fork()
		var opts codegen.Configuration
		opts.Compatibility.DisableRequiredReadOnlyAsPointer = r.Chance(30)
		opts.OutputOptions.NullableType = r.Chance(30)
		codegen.VerifSetOptions(opts)
		name := r.Pick([]string{"id", "first_name", "x-y", "Name", "日本"})
		p := codegen.Property{JsonFieldName: name, Schema: codegen.Schema{GoType: "string"}, Required: r.Bool(), ReadOnly: r.Chance(25), WriteOnly: r.Chance(25),
			Nullable: r.Chance(35), NeedsFormTag: r.Chance(30), Extensions: map[string]interface{}{}}
		xo, xov, has := tri(r)
		if has {
			p.Extensions["x-omitempty"] = xov
		}
		ji, jiv, has2 := tri(r)
		if has2 {
			p.Extensions["x-go-json-ignore"] = jiv
		}
		extra := map[string]interface{}{}
		var encExtra []interface{}
		if r.Chance(60) {
			for _, pi := range r.Perm(len(extraKeys))[:r.Intn(5)] {
				v := r.Pick([]string{"required", "-", "ID,omitempty", "x y", ""})
				extra[extraKeys[pi]] = v
			}
			p.Extensions["x-oapi-codegen-extra-tags"] = extra
		}
		var ks []string
		for k := range extra {
			ks = append(ks, k)
		}
		sort.Strings(ks)
		for _, pi := range r.Perm(len(ks)) { // any order: the theorem does not depend on it
			encExtra = append(encExtra, [][]int{bytesOf(ks[pi]), bytesOf(extra[ks[pi]].(string))})
		}
		if encExtra == nil {
			encExtra = []interface{}{}
		}
		got := tagOf(codegen.GenFieldsFromProperties([]codegen.Property{p}))
		var mo []int
		if e := ctx.Model(J{"fn": "fieldTags", "name": bytesOf(name), "required": p.Required, "readOnly": p.ReadOnly, "writeOnly": p.WriteOnly,
			"nullable": p.Nullable, "needsForm": p.NeedsFormTag, "xOmitEmpty": xo, "jsonIgnore": ji, "extra": encExtra,
			"disableReqRO": opts.Compatibility.DisableRequiredReadOnlyAsPointer, "nullableType": opts.OutputOptions.NullableType}, &mo); e != nil {
			return e
		}
		c := J{"name": name, "required": p.Required, "readOnly": p.ReadOnly, "writeOnly": p.WriteOnly, "nullable": p.Nullable, "form": p.NeedsFormTag,
			"extensions": p.Extensions, "disable-required-readonly-as-pointer": opts.Compatibility.DisableRequiredReadOnlyAsPointer, "nullable-type": opts.OutputOptions.NullableType}
		ctx.Res.Eval(c, len(extra) > 0 || has || has2)
		ctx.Res.Count("corr:field-tags")
		if model := strOfBytes(mo); model != got {
			ctx.Res.Disagree("CORR GenFieldsFromProperties (struct tag) vs FieldTags.fieldTags", c, model, got)
		}
		// the statement on the real result: the extension changes its own keys and nothing else
		st := reflect.StructTag(got)
		for k, v := range extra {
			if gv, ok := st.Lookup(k); !ok || gv != v.(string) {
				ctx.Res.Violate("field-tags:extra-tag-lost", fmt.Sprintf("x-oapi-codegen-extra-tags says %s:%q, the tag is `%s`", k, v, got), c)
			}
		}
		if len(extra) > 0 {
			q := p
			q.Extensions = map[string]interface{}{}
			for k, v := range p.Extensions {
				if k != "x-oapi-codegen-extra-tags" {
					q.Extensions[k] = v
				}
			}
			plain := reflect.StructTag(tagOf(codegen.GenFieldsFromProperties([]codegen.Property{q})))
			for _, k := range []string{"json", "form"} {
				if _, named := extra[k]; named {
					continue
				}
				a, ok1 := plain.Lookup(k)
				b, ok2 := st.Lookup(k)
				if a != b || ok1 != ok2 {
					ctx.Res.Violate("field-tags:extra-tags-change-another-key", fmt.Sprintf("the %s tag is %q without the extension and %q with it (the extension does not name it)", k, a, b), c)
				}
			}
		}
		if cnt := strings.Count(" "+got, " json:"); cnt != 1 {
			ctx.Res.Violate("field-tags:json-key-count", fmt.Sprintf("the tag `%s` has %d json keys", got, cnt), c)
		}
	}
	return nil
}

// c08ParamObject: the parameter object of an operation (`<Op>Params`) — one field per query/header/cookie parameter, named
// after the parameter (or its own x-go-name), typed by its schema; what the schema a parameter refers to calls itself
// (x-go-name of the component) names the field's type, never the field.
func c08ParamObject(ctx *Ctx) error {
	doc := wDoc(J{"/things": J{"get": wOp("listThings", J{"parameters": []interface{}{
		J{"name": "user_id", "in": "query", "schema": J{"$ref": "#/components/schemas/UserID"}},
		J{"name": "X-Tenant", "in": "header", "schema": J{"$ref": "#/components/schemas/Tenant"}},
		J{"name": "q", "in": "query", "x-go-name": "Query", "schema": J{"type": "string"}},
		J{"name": "limit", "in": "query", "required": true, "schema": J{"type": "integer", "format": "int32"}},
		J{"name": "sid", "in": "cookie", "schema": J{"$ref": "#/components/schemas/Plain"}}}})}},
		J{"schemas": J{"UserID": J{"type": "string", "x-go-name": "UserIdentifier"}, "Tenant": J{"type": "string", "x-go-name": "TenantName", "x-oapi-codegen-extra-tags": J{"validate": "required"}},
			"Plain": J{"type": "string"}}})
	want := map[string]string{"UserId": "*UserIdentifier", "XTenant": "*TenantName", "Query": "*string", "Limit": "int32", "Sid": "*Plain"}
	for _, fw := range []string{"chi", "echo"} {
		spec, err := loadDoc(doc)
		if err != nil {
			return err
		}
		var cfg codegen.Configuration
		cfg.PackageName = "api"
		cfg.Generate.Models = true
		setFramework(&cfg, fw)
		src, err := generate(spec, cfg)
		ctx.Res.Eval(J{"parameter-object": fw}, true)
		ctx.Res.Count("parameter-object")
		if err != nil {
			ctx.Res.Violate("parameter-object:generate:"+fw, "the document with parameters referring to renamed schemas is refused: "+firstLine(err.Error()), J{"doc": doc})
			continue
		}
		f, _, err := parseGo(src)
		if err != nil {
			return err
		}
		got := map[string]string{}
		ast.Inspect(f, func(n ast.Node) bool {
			ts, ok := n.(*ast.TypeSpec)
			if !ok || ts.Name.Name != "ListThingsParams" {
				return true
			}
			if st, ok := ts.Type.(*ast.StructType); ok {
				for _, fl := range st.Fields.List {
					for _, nm := range fl.Names {
						got[nm.Name] = types.ExprString(fl.Type)
					}
				}
			}
			return false
		})
		if Canon(got) != Canon(want) {
			ctx.Res.Violate("parameter-object:fields:"+fw, fmt.Sprintf("ListThingsParams has the fields %v; the parameters prescribe %v", got, want), J{"doc": doc, "fw": fw})
		}
	}
	return nil
}
