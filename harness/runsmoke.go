package main

import (
	"fmt"

	"github.com/oapi-codegen/oapi-codegen/v2/pkg/codegen"
)

func smokeDoc() J {
	return J{"openapi": "3.0.3", "info": J{"title": "t", "version": "1"},
		"paths": J{
			"/pets/{id}": J{"get": J{"operationId": "getPet",
				"parameters": []interface{}{
					J{"name": "id", "in": "path", "required": true, "schema": J{"type": "integer", "format": "int32"}},
					J{"name": "tag", "in": "query", "schema": J{"type": "array", "items": J{"type": "string"}}},
					J{"name": "X-Req", "in": "header", "required": true, "schema": J{"type": "string"}},
				},
				"responses": J{"200": J{"description": "ok", "content": J{"application/json": J{"schema": J{"$ref": "#/components/schemas/Pet"}}}},
					"default": J{"description": "err", "content": J{"application/json": J{"schema": J{"type": "object", "properties": J{"m": J{"type": "string"}}}}}}},
			}},
			"/pets": J{"post": J{"operationId": "addPet",
				"requestBody": J{"required": true, "content": J{"application/json": J{"schema": J{"$ref": "#/components/schemas/Pet"}}}},
				"responses":   J{"201": J{"description": "created"}},
			}},
		},
		"components": J{"schemas": J{"Pet": J{"type": "object", "required": []interface{}{"name"}, "properties": J{"name": J{"type": "string"}, "age": J{"type": "integer"}}}}},
	}
}

func runSmoke(ctx *Ctx) error {
	kit, err := NewRunKit(ctx.Work)
	if err != nil {
		return err
	}
	defer kit.Close()
	for _, fw := range allFrameworks {
		for _, strict := range []bool{false, true} {
			var cfg codegen.Configuration
			cfg.Generate.Models = true
			cfg.Generate.Client = true
			cfg.Generate.EmbeddedSpec = true
			name := fw
			if strict {
				name += "_strict"
			}
			kit.Add(&RunPkg{Name: name, FW: fw, Strict: strict, Doc: smokeDoc(), Cfg: cfg})
		}
	}
	kit.Prepare()
	for _, p := range kit.pkgs {
		if p.GenErr != nil {
			fmt.Println(p.Name, "GENERR", p.GenErr)
			continue
		}
		if p.BuildErr != "" {
			fmt.Println(p.Name, "BUILDERR", p.BuildErr)
			continue
		}
		r, err := p.Call(J{"do": "roundtrip", "fn": "NewGetPetRequest", "args": []interface{}{"http://h", 42, J{"tag": []string{"a b", "c"}, "X-Req": "hv"}}, "opt": J{"mw": 2, "stop": -1, "smw": 1, "sstop": -1, "sel": 0, "status": 200}})
		fmt.Println(p.Name, Canon(r), err)
		r, err = p.Call(J{"do": "parse", "fn": "ParseGetPetResponse", "rsp": J{"status": 200, "headers": [][2]string{{"Content-Type", "application/json"}}, "body": `{"name":"x"}`}})
		fmt.Println(p.Name, Canon(r), err)
	}
	return nil
}

func init() { register("smoke", runSmoke) }
