package main

import (
	"fmt"
	"go/ast"
	"go/parser"
	"go/token"
	"mime"
	"sort"
	"strconv"
	"strings"

	"github.com/oapi-codegen/oapi-codegen/v2/pkg/codegen"
	"github.com/oapi-codegen/oapi-codegen/v2/pkg/util"
)

// C13 — client response parsing fills the declared slot.

var c13Names = []string{"200", "201", "204", "400", "404", "500", "1XX", "2XX", "3XX", "4XX", "5XX", "default"}
var c13CTs = []string{"application/json", "application/vnd.api+json", "application/hal+json", "application/problem+json", "text/x-json",
	"application/yaml", "text/yaml", "application/xml", "text/xml", "text/plain", "application/octet-stream", "image/png",
	// a declared media type may carry a parameter
	"application/json; charset=utf-8"}

type c13Resp struct {
	Name     string
	Contents []c13Content
}
type c13Content struct {
	CT        string `json:"ct"`
	IsJSON    bool   `json:"isJson"`
	HasSchema bool   `json:"hasSchema"`
	Untyped   bool   `json:"-"` // the schema says nothing about the type ({} or a description only): the field is *interface{}
}

// the json class of genResponseUnmarshal: in contentTypesJSON or IsMediaTypeJson
func c13IsJSON(ct string) bool {
	for _, x := range []string{"application/json", "text/x-json", "application/problem+json"} {
		if x == ct {
			return true
		}
	}
	return util.IsMediaTypeJson(ct)
}

func c13GenOp(r *Rng, multiJSON bool) []c13Resp {
	n := 1 + r.Intn(5)
	perm := r.Perm(len(c13Names))
	var out []c13Resp
	for i := 0; i < n; i++ {
		rs := c13Resp{Name: c13Names[perm[i]], Contents: []c13Content{}}
		k := r.Intn(4)
		cp := r.Perm(len(c13CTs))
		nj, ny, nx := 0, 0, 0
		for j := 0; j < k; j++ {
			ct := c13CTs[cp[j]]
			isJ := c13IsJSON(ct)
			// several typed media of one class in one response generate a duplicate struct field for yaml/xml
			// (out of scope here) and switch to exact matching for json (kept when multiJSON)
			if isJ {
				nj++
				if nj > 1 && !multiJSON {
					continue
				}
			}
			if strings.Contains(ct, "yaml") {
				ny++
				if ny > 1 {
					continue
				}
			}
			if strings.Contains(ct, "xml") {
				nx++
				if nx > 1 {
					continue
				}
			}
			hs := r.Chance(85)
			rs.Contents = append(rs.Contents, c13Content{CT: ct, IsJSON: isJ, HasSchema: hs, Untyped: hs && r.Chance(20)})
		}
		sort.Slice(rs.Contents, func(a, b int) bool { return rs.Contents[a].CT < rs.Contents[b].CT })
		out = append(out, rs)
	}
	sort.Slice(out, func(a, b int) bool { return out[a].Name < out[b].Name })
	return out
}

func c13Doc(ops [][]c13Resp) J {
	paths := J{}
	for i, rs := range ops {
		responses := J{}
		for _, r := range rs {
			resp := J{"description": "d"}
			if len(r.Contents) > 0 {
				content := J{}
				for _, c := range r.Contents {
					mt := J{}
					if c.HasSchema {
						mt["schema"] = J{"type": "object", "properties": J{"a": J{"type": "string"}}}
						if c.Untyped {
							mt["schema"] = J{"description": "anything"}
						}
					}
					content[c.CT] = mt
				}
				resp["content"] = content
			}
			responses[r.Name] = resp
		}
		paths[fmt.Sprintf("/o%d", i)] = J{"get": J{"operationId": fmt.Sprintf("Op%d", i), "responses": responses}}
	}
	return J{"openapi": "3.0.3", "info": J{"title": "t", "version": "1"}, "paths": paths}
}

type c13Case struct {
	Name  string
	CT    string // "contains:json" | "equals:<ct>" | "any"
	Field string
}

// parseSwitch extracts (status name, content-type condition, field) from the emitted switch statement.
func parseSwitch(src string) ([]c13Case, error) {
	if strings.TrimSpace(src) == "" {
		return nil, nil
	}
	wrapped := "package p\nfunc f() {\n" + src + "\n}\n"
	fset := token.NewFileSet()
	f, err := parser.ParseFile(fset, "s.go", wrapped, 0)
	if err != nil {
		return nil, err
	}
	var out []c13Case
	var perr error
	ast.Inspect(f, func(n ast.Node) bool {
		cc, ok := n.(*ast.CaseClause)
		if !ok {
			return true
		}
		if len(cc.List) != 1 {
			perr = fmt.Errorf("case with %d expressions", len(cc.List))
			return false
		}
		c := c13Case{CT: "any"}
		var walk func(e ast.Expr) error
		walk = func(e ast.Expr) error {
			switch x := e.(type) {
			case *ast.BinaryExpr:
				if x.Op == token.LAND {
					if err := walk(x.X); err != nil {
						return err
					}
					return walk(x.Y)
				}
				if x.Op == token.EQL {
					l := nodeStr(fset, x.X)
					r := nodeStr(fset, x.Y)
					switch {
					case l == "rsp.StatusCode":
						c.Name = r
					case l == "rsp.StatusCode / 100" || l == "rsp.StatusCode/100":
						c.Name = r + "XX"
					case strings.HasPrefix(l, "rsp.Header.Get("):
						s, _ := strconv.Unquote(r)
						c.CT = "equals:" + s
					default:
						return fmt.Errorf("unknown comparison %s == %s", l, r)
					}
					return nil
				}
				return fmt.Errorf("unknown operator in %s", nodeStr(fset, e))
			case *ast.CallExpr:
				if nodeStr(fset, x.Fun) == "strings.Contains" && len(x.Args) == 2 {
					s, _ := strconv.Unquote(nodeStr(fset, x.Args[1]))
					c.CT = "contains:" + s
					return nil
				}
				return fmt.Errorf("unknown call %s", nodeStr(fset, e))
			case *ast.Ident:
				if x.Name == "true" {
					c.Name = "default"
					return nil
				}
			case *ast.ParenExpr:
				return walk(x.X)
			}
			return fmt.Errorf("unknown condition %s", nodeStr(fset, e))
		}
		if err := walk(cc.List[0]); err != nil {
			perr = err
			return false
		}
		for _, st := range cc.Body {
			as, ok := st.(*ast.AssignStmt)
			if !ok || len(as.Lhs) != 1 {
				continue
			}
			if se, ok := as.Lhs[0].(*ast.SelectorExpr); ok {
				if id, ok := se.X.(*ast.Ident); ok && id.Name == "response" {
					c.Field = se.Sel.Name
				}
			}
		}
		out = append(out, c)
		return false
	})
	return out, perr
}

type c13Model struct {
	Cases []struct {
		Name  string      `json:"name"`
		CT    interface{} `json:"ct"`
		Field *string     `json:"field"`
	} `json:"cases"`
	Answers []*string `json:"answers"`
}

func (m c13Model) cases() []c13Case {
	var out []c13Case
	for _, c := range m.Cases {
		cc := c13Case{Name: c.Name, CT: "any"}
		if mm, ok := c.CT.(map[string]interface{}); ok {
			if s, ok := mm["contains"].(string); ok {
				cc.CT = "contains:" + s
			}
			if s, ok := mm["equals"].(string); ok {
				cc.CT = "equals:" + s
			}
		}
		if c.Field != nil {
			cc.Field = *c.Field
		}
		out = append(out, cc)
	}
	return out
}

func c13Holds(name string, status int) bool {
	switch {
	case name == "default":
		return true
	case strings.HasSuffix(name, "XX"):
		return status/100 == int(name[0]-'0')
	}
	n, _ := strconv.Atoi(name)
	return n == status
}

func c13Rank(name string) int {
	switch {
	case name == "default":
		return 2
	case strings.HasSuffix(name, "XX"):
		return 1
	}
	return 0
}

func runC13(ctx *Ctx) error {
	ctx.Res.Rule = "seeded operations (1-5 responses over {codes, 1XX-5XX, default} x 0-3 media types over {json, vendor +json, hal+json, problem+json, x-json, yaml, xml, text, octet-stream, image} with/without schema; half of them with several JSON media types per response): CORR of the emitted switch (parsed by go/ast) with Lean genCases; RUN: Parse<Op>Response of the compiled client on every (status in a status set) x (declared and undeclared Content-Type, with and without parameters) with a valid body, compared with Lean parse and with the statement's oracle; request bodies: every typed builder New<Op>Request… of operations with JSON, vendor +json, form and text bodies (flat, nested, list and string schemas; one and several media types per operation) on seeded values (quotes, separators, non-ASCII): Content-Type is the declared one and the body decodes to the value; CORR of encoding/json (Unmarshal∘Marshal on decoded Go values of seeded reflect-built types) with GoJson.encode/decode and the stable predicate; non-trivial = every (operation, status, content-type) Session 9: CORR of GenerateBodyDefinitions (Model/Bodies.lean); TRANS Gen/MediaSwitch.lean and Gen/BodyRules.lean; the run program calls the previous builder again before it looks at a request."
	// the JSON body encoder/decoder pair of the request-body clause: encoding/json vs Model/GoJson.lean, both directions
	if err := corrGoJSON(ctx, ctx.N(1500, 20000)); err != nil {
		return err
	}
	// which request-body definitions an operation gets (tag, default, names, support): GenerateBodyDefinitions vs Model/Bodies.lean
	if err := corrBodies(ctx, ctx.N(800, 10000)); err != nil {
		return err
	}
	// form bodies of flat objects: runtime.MarshalForm / BindForm vs Model/Form.lean
	if err := corrForm(ctx, ctx.N(600, 8000)); err != nil {
		return err
	}
	nops := ctx.N(24, 200)
	var ops [][]c13Resp
	for i := 0; i < nops; i++ {
		ops = append(ops, c13GenOp(ctx.Rng.Fork(), i%2 == 1))
	}
	// fixed shapes: one response with two (three) JSON media types that all have a schema, next to a default
	js := func(ct string) c13Content { return c13Content{CT: ct, IsJSON: true, HasSchema: true} }
	ops[0] = []c13Resp{{Name: "200", Contents: []c13Content{js("application/json"), js("application/vnd.api+json")}}, {Name: "default", Contents: []c13Content{js("application/json")}}}
	if len(ops) > 2 {
		ops[2] = []c13Resp{{Name: "2XX", Contents: []c13Content{js("application/hal+json"), js("application/json"), js("application/problem+json")}}, {Name: "404", Contents: []c13Content{js("application/json"), js("application/problem+json")}}}
	}
	doc := c13Doc(ops)
	// ---- CORR on the emitted switch ----
	spec, err := loadDoc(doc)
	if err != nil {
		return err
	}
	// an earlier generation of the process had operations with the same ids and other responses: the client of this
	// document is made from this document's responses
	{
		var decoy [][]c13Resp
		for range ops {
			decoy = append(decoy, []c13Resp{{Name: "418", Contents: []c13Content{{CT: "application/json", IsJSON: true, HasSchema: true}}}})
		}
		if spec, err := loadDoc(c13Doc(decoy)); err == nil {
			var dc codegen.Configuration
			dc.Generate.Client, dc.Generate.Models = true, true
			dc.PackageName = "decoy"
			if _, gerr := generate(spec, dc); gerr != nil {
				ctx.Res.Count("decoy-generation-failed:" + errorClass(firstLine(gerr.Error())))
			}
			ctx.Res.Count("generation-with-the-same-operation-ids-first")
		}
	}
	codegen.VerifSetOptions(codegen.Configuration{})
	codegen.SetGlobalStateSpec(spec)
	codegen.VerifSetNameNormalizer("")
	defs, err := codegen.OperationDefinitions(spec, false)
	if err != nil {
		return err
	}
	byID := map[string]*codegen.OperationDefinition{}
	for i := range defs {
		byID[defs[i].OperationId] = &defs[i]
	}
	statuses := []int{100, 200, 201, 204, 250, 299, 301, 400, 404, 418, 500, 503}
	models := make([]c13Model, len(ops))
	queriesOf := make([][]J, len(ops))
	for i, rs := range ops {
		var lresps []J
		cts := map[string]bool{}
		for _, r := range rs {
			lresps = append(lresps, J{"name": r.Name, "contents": r.Contents})
			for _, c := range r.Contents {
				cts[c.CT] = true
			}
		}
		var qs []J
		qcts := SortedKeys(cts)
		extra := []string{"application/json", "text/plain", "application/vnd.other+json", "application/xml"}
		for _, e := range extra {
			if !cts[e] {
				qcts = append(qcts, e)
			}
		}
		for _, ct := range append([]string{}, qcts...) {
			qcts = append(qcts, ct+"; charset=utf-8")
		}
		for _, st := range statuses {
			for _, ct := range qcts {
				qs = append(qs, J{"status": st, "ct": ct})
			}
		}
		queriesOf[i] = qs
		if lresps == nil {
			lresps = []J{}
		}
		if err := ctx.Model(map[string]interface{}{"fn": "responses", "resps": lresps, "queries": qs}, &models[i]); err != nil {
			return err
		}
		op := byID[fmt.Sprintf("Op%d", i)]
		if op == nil {
			return fmt.Errorf("operation Op%d not found", i)
		}
		src := codegen.VerifGenResponseUnmarshal(op)
		impl, perr := parseSwitch(src)
		ctx.Res.Evaluations++
		ctx.Res.Count("corr:switch")
		if perr != nil {
			ctx.Res.Disagree("FACT switch extractor (unrecognised clause shape)", J{"op": rs, "src": src}, "recognised clauses", perr.Error())
			continue
		}
		if Canon(impl) != Canon(models[i].cases()) {
			ctx.Res.Disagree("CORR genCases (Model/Responses.lean vs genResponseUnmarshal)", J{"op": rs}, models[i].cases(), impl)
		}
	}
	// ---- RUN: the compiled client ----
	kit, err := NewRunKit(ctx.Work)
	if err != nil {
		return err
	}
	defer kit.Close()
	var cfg codegen.Configuration
	cfg.Generate.Client = true
	cfg.Generate.Models = true
	p := kit.Add(&RunPkg{Name: "c13", FW: "", Doc: doc, Cfg: cfg})
	bodyRun, err := c13Bodies(ctx, kit)
	if err != nil {
		return err
	}
	kit.Prepare()
	if err := bodyRun(); err != nil {
		return err
	}
	if p.GenErr != nil {
		ctx.Res.Violate("c13:generate", "Generate failed: "+p.GenErr.Error(), J{"doc": doc})
		return nil
	}
	if p.BuildErr != "" {
		for _, f := range p.CompileFailures() {
			ctx.Res.Violate("c13:compile:"+opRe.ReplaceAllString(f.Func, "Op#")+":"+opRe.ReplaceAllString(f.Msg, "Op#"), "client does not compile: "+f.Func+": "+f.Msg, J{"doc": doc})
		}
		return nil
	}
	for i, rs := range ops {
		for qi, q := range queriesOf[i] {
			st := q["status"].(int)
			ct := q["ct"].(string)
			body := `{"a":"x"}`
			if strings.Contains(ct, "yaml") {
				body = "a: x\n"
			} else if strings.Contains(ct, "xml") {
				body = "<Obj><A>x</A></Obj>"
			}
			resp, err := p.Call(J{"do": "parse", "fn": fmt.Sprintf("ParseOp%dResponse", i), "rsp": J{"status": st, "headers": [][2]string{{"Content-Type", ct}}, "body": body}})
			if err != nil {
				return err
			}
			c := J{"op": rs, "status": st, "ct": ct}
			ctx.Res.Eval(J{"op": i, "status": st, "ct": ct}, true)
			ctx.Res.Count("run:parse")
			fields, _ := resp["fields"].(map[string]interface{})
			if fields == nil {
				ctx.Res.Violate(fmt.Sprintf("parse-error:%v", resp["parseerr"] != nil), fmt.Sprintf("Parse…Response failed on a valid body: %v", Canon(resp)), J{"case": c, "doc": c13Doc([][]c13Resp{rs})})
				continue
			}
			var typed []string
			for k := range fields {
				if k != "Body" && k != "HTTPResponse" && k != "$StatusCode" {
					typed = append(typed, k)
				}
			}
			sort.Strings(typed)
			// raw body and status always exposed
			if fields["Body"] != body || fmt.Sprint(fields["HTTPResponse"]) != fmt.Sprint(st) {
				ctx.Res.Violate("raw-not-exposed", "Body / HTTPResponse not exposed", J{"case": c, "resp": resp})
			}
			// correspondence with the model
			want := []string{}
			if a := models[i].Answers[qi]; a != nil {
				want = []string{*a}
			}
			if Canon(orEmpty(typed)) != Canon(want) {
				ctx.Res.Disagree("CORR parse (Model/Responses.lean parse vs compiled Parse…Response)", c, want, typed)
			}
			// the statement's own oracle: a declared (name, media type) pair answered with its status and media type
			mt, _, _ := mime.ParseMediaType(ct)
			bestRank, bestField := 9, ""
			declared := false
			for _, r := range rs {
				if !c13Holds(r.Name, st) {
					continue
				}
				for _, cc := range r.Contents {
					if cc.CT == mt && cc.HasSchema {
						f := c13FieldName(cc.CT, cc.IsJSON, r.Name)
						if f != "" && c13Rank(r.Name) < bestRank {
							bestRank, bestField, declared = c13Rank(r.Name), f, true
						}
					}
				}
			}
			if declared {
				if len(typed) != 1 || typed[0] != bestField {
					multi := false
					for _, r := range rs {
						nj := 0
						for _, cc := range r.Contents {
							if cc.IsJSON {
								nj++
							}
						}
						if nj > 1 {
							multi = true
						}
					}
					params := strings.Contains(ct, ";")
					cause := fmt.Sprintf("other:multijson=%v:ctparams=%v:rank=%d:class=%s", multi, params, bestRank, c13Class(mt))
					// which declared pair does the filled field belong to?
					fName, fCT := "", ""
					if len(typed) == 1 {
						for _, r := range rs {
							for _, cc := range r.Contents {
								if cc.HasSchema && c13FieldName(cc.CT, cc.IsJSON, r.Name) == typed[0] && c13Holds(r.Name, st) {
									fName, fCT = r.Name, cc.CT
								}
							}
						}
					}
					cls := func(x string) string {
						c := c13Class(x)
						if c == "vendor-json" {
							c = "json"
						}
						return c
					}
					switch {
					case fCT != "" && fCT != mt && cls(fCT) == cls(mt):
						cause = "substring-match-captures-other-media-type-of-class-" + cls(mt)
					case multi && params && c13IsJSON(mt):
						cause = "exact-match-ignores-media-type-parameters"
					case multi && fCT == mt && c13Rank(fName) > bestRank:
						cause = "less-specific-status-wins-when-clause-keys-mix-exact-and-substring-matching"
					}
					sig := "slot:" + cause
					ctx.Res.Violate(sig, fmt.Sprintf("status %d Content-Type %q: fields %v filled, the declared pair's field is %s", st, ct, typed, bestField),
						J{"case": c, "doc": c13Doc([][]c13Resp{rs}), "resp": resp})
				}
			}
		}
	}
	return nil
}

func c13Class(mt string) string {
	switch {
	case mt == "application/json":
		return "json"
	case c13IsJSON(mt):
		return "vendor-json"
	case strings.Contains(mt, "yaml"):
		return "yaml"
	case strings.Contains(mt, "xml"):
		return "xml"
	}
	return "other"
}

// c13FieldName: the documented field naming (JSON200, XMLDefault, ApplicationVndXJSON2XX, ...)
func c13FieldName(ct string, isJSON bool, name string) string {
	camel := func(s string) string { return codegen.ToCamelCase(s) }
	switch {
	case ct == "application/hal+json":
		return "HALJSON" + camel(name)
	case ct == "application/json":
		return "JSON" + camel(name)
	case isJSON:
		return strings.ReplaceAll(camel(ct)+camel(name), "Json", "JSON")
	case ct == "application/yaml" || ct == "application/x-yaml" || ct == "text/yaml" || ct == "text/x-yaml":
		return "YAML" + camel(name)
	case ct == "application/xml" || ct == "text/xml" || ct == "application/problems+xml":
		return "XML" + camel(name)
	}
	return ""
}

func init() { register("c13", runC13) }
