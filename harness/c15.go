package main

import (
	"encoding/json"
	"fmt"
	"os"
	"regexp"
	"sort"
	"strings"

	"github.com/getkin/kin-openapi/openapi3"
	"github.com/oapi-codegen/oapi-codegen/v2/pkg/codegen"
)

// C15 — pruning keeps exactly the referenced components.
//
// Documents are generated as JSON trees (so the loader path is exercised), with `$ref`s at
// every position one may occur. The abstraction fed to the Lean model (roots / comps / outs)
// is computed by an INDEPENDENT scanner over the marshalled JSON — it shares nothing with
// the walker of prune.go, so a position the walker forgets shows up as a difference.

type J = map[string]interface{}

var pruneKinds = []string{"schemas", "parameters", "headers", "requestBodies", "responses", "examples", "links", "callbacks"}

type gnode struct {
	Kind string
	Name string
}

func (n gnode) Ref() string { return "#/components/" + n.Kind + "/" + n.Name }

type gedge struct {
	From int // -1 = root (operation)
	To   int
	Pos  string
}

type graph struct {
	Nodes []gnode
	Edges []gedge
}

func ref(n gnode) J { return J{"$ref": n.Ref()} }

// positions[sourceKind] -> list of (position name, target kind)
type posT struct{ Pos, Target string }

var c15Positions = map[string][]posT{
	"schemas":       {{"direct", "schemas"}, {"prop", "schemas"}, {"items", "schemas"}, {"addl", "schemas"}, {"allOf", "schemas"}, {"oneOf", "schemas"}, {"anyOf", "schemas"}, {"not", "schemas"}},
	"parameters":    {{"direct", "parameters"}, {"schema", "schemas"}, {"schema.items", "schemas"}, {"content.schema", "schemas"}, {"examples", "examples"}, {"content.examples", "examples"}},
	"headers":       {{"direct", "headers"}, {"schema", "schemas"}, {"content.schema", "schemas"}, {"examples", "examples"}},
	"requestBodies": {{"direct", "requestBodies"}, {"content.schema", "schemas"}, {"content.examples", "examples"}, {"encoding.headers", "headers"}},
	"responses":     {{"direct", "responses"}, {"headers", "headers"}, {"content.schema", "schemas"}, {"content.examples", "examples"}, {"links", "links"}, {"headers.schema", "schemas"}},
	"examples":      {{"direct", "examples"}},
	"links":         {{"direct", "links"}},
	"callbacks":     {{"direct", "callbacks"}, {"pi.parameters", "parameters"}, {"op.parameters", "parameters"}, {"op.requestBody", "requestBodies"}, {"op.responses", "responses"}, {"op.callbacks", "callbacks"}, {"op.param.schema", "schemas"}},
	"root": {{"pi.parameters", "parameters"}, {"op.parameters", "parameters"}, {"op.requestBody", "requestBodies"}, {"op.responses", "responses"}, {"op.callbacks", "callbacks"},
		{"op.param.schema", "schemas"}, {"op.param.examples", "examples"}, {"op.param.content.schema", "schemas"}, {"op.body.schema", "schemas"}, {"op.body.examples", "examples"},
		{"op.resp.schema", "schemas"}, {"op.resp.headers", "headers"}, {"op.body.encoding.headers", "headers"}, {"op.resp.links", "links"}, {"op.resp.headers.schema", "schemas"},
		{"op.resp.examples", "examples"}, {"op.resp.schema.prop.items", "schemas"}, {"pi.param.schema", "schemas"}},
}

// schemaAt returns an inline schema holding target at the given schema position.
func schemaAt(pos string, t gnode) interface{} {
	switch pos {
	case "direct", "prop":
		return ref(t)
	case "items":
		return J{"type": "array", "items": ref(t)}
	case "addl":
		return J{"type": "object", "additionalProperties": ref(t)}
	case "allOf":
		return J{"allOf": []interface{}{ref(t), J{"type": "object"}}}
	case "oneOf":
		return J{"oneOf": []interface{}{ref(t)}}
	case "anyOf":
		return J{"anyOf": []interface{}{ref(t)}}
	case "not":
		return J{"not": ref(t)}
	}
	panic("schemaAt " + pos)
}

func getJ(m J, k string) J {
	if v, ok := m[k].(J); ok {
		return v
	}
	v := J{}
	m[k] = v
	return v
}

// inlineOp builds an operation object with the given outgoing edges placed in it.
func buildOp(g *graph, edges []gedge, pi J, id string) J {
	op := J{"operationId": id, "responses": J{"200": J{"description": "d"}}}
	params := []interface{}{}
	piParams := []interface{}{}
	for i, e := range edges {
		t := g.Nodes[e.To]
		k := fmt.Sprintf("e%d", i)
		switch e.Pos {
		case "pi.parameters":
			piParams = append(piParams, ref(t))
		case "pi.param.schema":
			piParams = append(piParams, J{"name": "pp" + k, "in": "query", "schema": ref(t)})
		case "op.parameters":
			params = append(params, ref(t))
		case "op.requestBody":
			op["requestBody"] = ref(t)
		case "op.responses":
			getJ(op, "responses")[fmt.Sprint(201+i)] = ref(t)
		case "op.callbacks":
			getJ(op, "callbacks")[k] = ref(t)
		case "op.param.schema":
			params = append(params, J{"name": "p" + k, "in": "query", "schema": ref(t)})
		case "op.param.examples":
			params = append(params, J{"name": "p" + k, "in": "query", "schema": J{"type": "string"}, "examples": J{"x": ref(t)}})
		case "op.param.content.schema":
			params = append(params, J{"name": "p" + k, "in": "query", "content": J{"application/json": J{"schema": ref(t)}}})
		case "op.body.schema", "op.body.examples", "op.body.encoding.headers":
			rb, ok := op["requestBody"].(J)
			if !ok || rb["$ref"] != nil {
				rb = J{"content": J{}}
				op["requestBody"] = rb
			}
			mt := getJ(getJ(rb, "content"), "application/x-"+k)
			switch e.Pos {
			case "op.body.schema":
				mt["schema"] = ref(t)
			case "op.body.examples":
				mt["examples"] = J{"x": ref(t)}
			default:
				mt["schema"] = J{"type": "object", "properties": J{"a": J{"type": "string"}}}
				mt["encoding"] = J{"a": J{"headers": J{"X-H": ref(t)}}}
			}
		case "op.resp.schema", "op.resp.headers", "op.resp.links", "op.resp.headers.schema", "op.resp.examples", "op.resp.schema.prop.items":
			r := J{"description": "d"}
			getJ(op, "responses")[fmt.Sprint(301+i)] = r
			switch e.Pos {
			case "op.resp.schema":
				r["content"] = J{"application/json": J{"schema": ref(t)}}
			case "op.resp.examples":
				r["content"] = J{"application/json": J{"schema": J{"type": "string"}, "examples": J{"x": ref(t)}}}
			case "op.resp.schema.prop.items":
				r["content"] = J{"application/json": J{"schema": J{"type": "object", "properties": J{"q": J{"type": "array", "items": ref(t)}}}}}
			case "op.resp.headers":
				r["headers"] = J{"X-H": ref(t)}
			case "op.resp.headers.schema":
				r["headers"] = J{"X-H": J{"schema": ref(t)}}
			case "op.resp.links":
				r["links"] = J{"l": ref(t)}
			}
		default:
			panic("buildOp pos " + e.Pos)
		}
	}
	if len(params) > 0 {
		op["parameters"] = params
	}
	if len(piParams) > 0 && pi != nil {
		old, _ := pi["parameters"].([]interface{})
		pi["parameters"] = append(old, piParams...)
	}
	return op
}

func buildComp(g *graph, idx int, edges []gedge) interface{} {
	n := g.Nodes[idx]
	// alias component?
	for _, e := range edges {
		if e.Pos == "direct" && n.Kind != "schemas" {
			return ref(g.Nodes[e.To])
		}
	}
	switch n.Kind {
	case "schemas":
		if len(edges) == 1 && edges[0].Pos != "prop" {
			s := schemaAt(edges[0].Pos, g.Nodes[edges[0].To])
			return s
		}
		props := J{}
		s := J{"type": "object", "properties": props}
		for i, e := range edges {
			props[fmt.Sprintf("e%d", i)] = schemaAt(e.Pos, g.Nodes[e.To])
		}
		if len(edges) == 0 {
			delete(s, "properties")
		} else if idx%2 == 1 {
			// `type` is optional: properties alone make the references of an object schema
			delete(s, "type")
		}
		return s
	case "parameters", "headers":
		p := J{}
		if n.Kind == "parameters" {
			p["name"] = n.Name
			p["in"] = "query"
		}
		var schemaRefs, contentRefs, exRefs, cexRefs []gnode
		items := false
		for _, e := range edges {
			switch e.Pos {
			case "schema":
				schemaRefs = append(schemaRefs, g.Nodes[e.To])
			case "schema.items":
				schemaRefs = append(schemaRefs, g.Nodes[e.To])
				items = true
			case "content.schema":
				contentRefs = append(contentRefs, g.Nodes[e.To])
			case "examples":
				exRefs = append(exRefs, g.Nodes[e.To])
			case "content.examples":
				cexRefs = append(cexRefs, g.Nodes[e.To])
			}
		}
		holder := func(rs []gnode) interface{} {
			if len(rs) == 1 && !items {
				return ref(rs[0])
			}
			if len(rs) == 1 {
				return J{"type": "array", "items": ref(rs[0])}
			}
			props := J{}
			for i, r := range rs {
				props[fmt.Sprintf("s%d", i)] = ref(r)
			}
			return J{"type": "object", "properties": props}
		}
		useContent := len(contentRefs) > 0 || len(cexRefs) > 0
		if useContent {
			mt := J{"schema": J{"type": "string"}}
			all := append(append([]gnode{}, contentRefs...), schemaRefs...)
			if len(all) > 0 {
				mt["schema"] = holder(all)
			}
			ex := J{}
			for i, r := range append(append([]gnode{}, cexRefs...), exRefs...) {
				ex[fmt.Sprintf("x%d", i)] = ref(r)
			}
			if len(ex) > 0 {
				mt["examples"] = ex
			}
			p["content"] = J{"application/json": mt}
		} else {
			p["schema"] = J{"type": "string"}
			if len(schemaRefs) > 0 {
				p["schema"] = holder(schemaRefs)
			}
			ex := J{}
			for i, r := range exRefs {
				ex[fmt.Sprintf("x%d", i)] = ref(r)
			}
			if len(ex) > 0 {
				p["examples"] = ex
			}
		}
		return p
	case "requestBodies":
		content := J{}
		for i, e := range edges {
			mt := getJ(content, fmt.Sprintf("application/x-e%d", i))
			switch e.Pos {
			case "content.schema":
				mt["schema"] = ref(g.Nodes[e.To])
			case "content.examples":
				mt["schema"] = J{"type": "string"}
				mt["examples"] = J{"x": ref(g.Nodes[e.To])}
			case "encoding.headers":
				mt["schema"] = J{"type": "object", "properties": J{"a": J{"type": "string"}}}
				mt["encoding"] = J{"a": J{"headers": J{"X-H": ref(g.Nodes[e.To])}}}
			}
		}
		if len(content) == 0 {
			content["application/json"] = J{"schema": J{"type": "object"}}
		}
		return J{"content": content}
	case "responses":
		r := J{"description": "d"}
		for i, e := range edges {
			k := fmt.Sprintf("e%d", i)
			t := g.Nodes[e.To]
			switch e.Pos {
			case "headers":
				getJ(r, "headers")["X-"+k] = ref(t)
			case "headers.schema":
				getJ(r, "headers")["X-"+k] = J{"schema": ref(t)}
			case "content.schema":
				getJ(r, "content")["application/x-"+k] = J{"schema": ref(t)}
			case "content.examples":
				getJ(r, "content")["application/x-"+k] = J{"schema": J{"type": "string"}, "examples": J{"x": ref(t)}}
			case "links":
				getJ(r, "links")[k] = ref(t)
			}
		}
		return r
	case "examples":
		return J{"value": 1}
	case "links":
		return J{"operationId": "op0"}
	case "callbacks":
		pi := J{}
		var es []gedge
		for _, e := range edges {
			es = append(es, e)
		}
		pi["post"] = buildOp(g, es, pi, "cb"+n.Name)
		return J{"{$request.body#/u}": pi}
	}
	panic("buildComp")
}

func (g *graph) Build() J {
	out := map[int][]gedge{}
	for _, e := range g.Edges {
		out[e.From] = append(out[e.From], e)
	}
	comps := J{}
	for i, n := range g.Nodes {
		getJ(comps, n.Kind)[n.Name] = buildComp(g, i, out[i])
	}
	// a securityScheme is never pruned and never referenced by $ref
	getJ(comps, "securitySchemes")["sec"] = J{"type": "http", "scheme": "basic"}
	pi := J{}
	pi["get"] = buildOp(g, out[-1], pi, "op0")
	doc := J{"openapi": "3.0.3", "info": J{"title": "t", "version": "1"},
		"paths": J{"/a": pi}, "components": comps}
	return doc
}

// ---------- independent $ref scanner ----------

func scanRefs(v interface{}, acc *[]string) {
	switch t := v.(type) {
	case map[string]interface{}:
		for _, k := range SortedKeys(t) {
			if k == "$ref" {
				if s, ok := t[k].(string); ok {
					*acc = append(*acc, s)
					continue
				}
				// a member that merely happens to be called "$ref" (e.g. a schema property): look inside
			}
			scanRefs(t[k], acc)
		}
	case []interface{}:
		for _, x := range t {
			scanRefs(x, acc)
		}
	}
}

type absComp struct {
	Ref string   `json:"ref"`
	Out []string `json:"out"`
}
type absDoc struct {
	Roots []string  `json:"roots"`
	Comps []absComp `json:"comps"`
}

func abstractDoc(spec *openapi3.T) (absDoc, error) {
	b, err := spec.MarshalJSON()
	if err != nil {
		return absDoc{}, err
	}
	var tree map[string]interface{}
	if err := json.Unmarshal(b, &tree); err != nil {
		return absDoc{}, err
	}
	d := absDoc{Roots: []string{}, Comps: []absComp{}}
	scanRefs(tree["paths"], &d.Roots)
	comps, _ := tree["components"].(map[string]interface{})
	for _, kind := range SortedKeys(comps) {
		m, _ := comps[kind].(map[string]interface{})
		prunable := false
		for _, k := range pruneKinds {
			if k == kind {
				prunable = true
			}
		}
		for _, name := range SortedKeys(m) {
			out := []string{}
			scanRefs(m[name], &out)
			if prunable {
				d.Comps = append(d.Comps, absComp{Ref: "#/components/" + kind + "/" + name, Out: out})
			} else {
				// never removed and always walked: behaves like a root
				d.Roots = append(d.Roots, out...)
			}
		}
	}
	return d, nil
}

func (d absDoc) refs() map[string]bool {
	m := map[string]bool{}
	for _, r := range d.Roots {
		m[r] = true
	}
	for _, c := range d.Comps {
		for _, r := range c.Out {
			m[r] = true
		}
	}
	return m
}

func (d absDoc) names() []string {
	s := []string{}
	for _, c := range d.Comps {
		s = append(s, c.Ref)
	}
	sort.Strings(s)
	return s
}

func (d absDoc) reachable() map[string]bool {
	reach := map[string]bool{}
	byRef := map[string]absComp{}
	for _, c := range d.Comps {
		byRef[c.Ref] = c
	}
	var visit func(r string)
	visit = func(r string) {
		c, ok := byRef[r]
		if !ok || reach[r] {
			return
		}
		reach[r] = true
		for _, o := range c.Out {
			visit(o)
		}
	}
	for _, r := range d.Roots {
		visit(r)
	}
	return reach
}

func loadDoc(doc J) (*openapi3.T, error) {
	b, err := json.Marshal(doc)
	if err != nil {
		return nil, err
	}
	l := openapi3.NewLoader()
	l.IsExternalRefsAllowed = false
	return l.LoadFromData(b)
}

type c15Viol struct{ Kind, Ref, What string }

// c15Eval runs the implementation on the graph's document and evaluates the property's
// own oracle; it also returns the abstract document and the implementation's kept set.
func c15Eval(g *graph) (doc J, before absDoc, kept []string, viols []c15Viol, err error) {
	doc = g.Build()
	spec, err := loadDoc(doc)
	if err != nil {
		return doc, before, nil, nil, fmt.Errorf("unloadable: %v", err)
	}
	if before, err = abstractDoc(spec); err != nil {
		return
	}
	codegen.VerifPrune(spec)
	after, err := abstractDoc(spec)
	if err != nil {
		return
	}
	kept = after.names()
	keptSet := map[string]bool{}
	for _, k := range kept {
		keptSet[k] = true
	}
	inBefore := map[string]bool{}
	for _, c := range before.Comps {
		inBefore[c.Ref] = true
	}
	afterRefs := after.refs()
	// (a) no dangling reference in the pruned document (the primary symptom of a lost component)
	for _, r := range SortedKeys(afterRefs) {
		if inBefore[r] && !keptSet[r] {
			viols = append(viols, c15Viol{"dangling", r, "pruned document still refers to removed " + r})
		}
	}
	// (b) every reachable component is kept
	if len(viols) == 0 {
		for _, r := range SortedKeys(before.reachable()) {
			if !keptSet[r] {
				viols = append(viols, c15Viol{"lost", r, "reachable component " + r + " was pruned"})
			}
		}
	}
	// (c) every component nothing retained refers to is removed
	for _, k := range kept {
		if !afterRefs[k] {
			viols = append(viols, c15Viol{"unreferenced-kept", k, "component " + k + " is kept although nothing retained refers to it"})
		}
		if !inBefore[k] {
			viols = append(viols, c15Viol{"invented", k, "component " + k + " appeared during pruning"})
		}
	}
	// (d) idempotence
	codegen.VerifPrune(spec)
	again, _ := abstractDoc(spec)
	if Canon(again) != Canon(after) {
		viols = append(viols, c15Viol{"not-idempotent", "", "pruning a pruned document changed it"})
	}
	return
}

func c15Shrink(g *graph, kind string) *graph {
	has := func(h *graph) bool {
		_, _, _, vs, err := c15Eval(h)
		if err != nil {
			return false
		}
		for _, v := range vs {
			if v.Kind == kind {
				return true
			}
		}
		return false
	}
	cur := g
	for changed := true; changed; {
		changed = false
		for i := range cur.Edges {
			h := &graph{Nodes: cur.Nodes, Edges: append(append([]gedge{}, cur.Edges[:i]...), cur.Edges[i+1:]...)}
			if has(h) {
				cur, changed = h, true
				break
			}
		}
	}
	return cur
}

func c15Case(ctx *Ctx, g *graph, label string) error {
	doc, before, kept, viols, err := c15Eval(g)
	if err != nil {
		ctx.Res.Count("load-error")
		return fmt.Errorf("generator produced an unloadable doc (%s): %v: %s", label, err, Canon(doc))
	}
	ctx.Res.Eval(J{"nodes": g.Nodes, "edges": g.Edges}, len(g.Edges) > 0)
	ctx.Res.Count(fmt.Sprintf("nodes=%d", len(g.Nodes)))
	for _, e := range g.Edges {
		from := "root"
		if e.From >= 0 {
			from = g.Nodes[e.From].Kind
		}
		ctx.Res.Count("pos:" + from + "." + e.Pos)
	}
	seenKind := map[string]bool{}
	for _, v := range viols {
		if seenKind[v.Kind] {
			continue
		}
		seenKind[v.Kind] = true
		sg := c15Shrink(g, v.Kind)
		sdoc, _, _, svs, _ := c15Eval(sg)
		for _, sv := range svs {
			if sv.Kind == v.Kind {
				ctx.Res.Violate(c15Sig(sv.Kind, sg, sv.Ref), sv.What+" ("+c15Why(sg, sv.Ref)+")",
					J{"doc": sdoc, "graph": J{"nodes": sg.Nodes, "edges": sg.Edges}})
			}
		}
	}
	// --- correspondence with the Lean model ---
	var model []string
	if err := ctx.Model(map[string]interface{}{"fn": "prune", "roots": before.Roots, "comps": before.Comps}, &model); err != nil {
		return err
	}
	sort.Strings(model)
	if Canon(model) != Canon(kept) {
		ctx.Res.Disagree("CORR prune (Model/Prune.lean prune vs pruneUnusedComponents)",
			J{"doc": doc, "graph": J{"nodes": g.Nodes, "edges": g.Edges}}, model, kept)
	}
	return nil
}

// c15Why names the positions through which r is referenced (stable signature component).
func c15Why(g *graph, r string) string {
	ps := []string{}
	for _, e := range g.Edges {
		if g.Nodes[e.To].Ref() == r {
			from := "root"
			if e.From >= 0 {
				from = g.Nodes[e.From].Kind
			}
			ps = append(ps, from+"."+e.Pos)
		}
	}
	sort.Strings(ps)
	return "via " + strings.Join(ps, ",")
}

func c15Sig(what string, g *graph, r string) string {
	kind := ""
	if p := strings.Split(r, "/"); len(p) == 4 {
		kind = p[2]
	}
	why := ""
	if r != "" {
		why = c15Why(g, r)
	}
	return what + ":" + kind + ":" + why
}

// c15Generate runs the whole generator (types + embedded specification) on the graph's document extended by one
// operation that an operation-id filter removes, together with a schema only that operation refers to: the components
// of the embedded specification must be exactly the kept set of the graph alone.
func c15Generate(ctx *Ctx, g *graph, label string) error {
	if allOfCycle(g) {
		// a property that extends its own enclosing schema inline (allOf back to the parent, possibly through further
		// inline allOfs) has no finite Go type; the generator overflows its stack on it (DESIGN.md, finding under C01)
		ctx.Res.Count("generate-level:skipped-inline-allOf-cycle")
		return nil
	}
	doc := g.Build()
	if len(g.Nodes)%4 == 3 {
		// a document without any path (a library of components): nothing is referred to, pruning removes everything
		docNP := g.Build()
		docNP["paths"] = J{}
		specNP, err1 := loadDoc(docNP)
		specNP0, err2 := loadDoc(docNP)
		if err1 == nil && err2 == nil {
			// what pruning (checked on its own against the independent scanner) leaves of the document: orphan cycles only
			codegen.VerifPrune(specNP0)
			wantNP := []string{}
			if a, err := abstractDoc(specNP0); err == nil {
				wantNP = a.names()
			}
			var o codegen.Configuration
			o.PackageName = "api"
			o.Generate.Models = true
			o.Generate.EmbeddedSpec = true
			ctx.Res.Count("generate-level:document-without-paths")
			if src, err := generate(specNP, o); err == nil {
				replay := J{"doc": docNP}
				if f, _, perr := parseGo(src); perr == nil {
					if raw, derr := decodeEmbedded(f); derr == nil {
						if emb, lerr := openapi3.NewLoader().LoadFromData(raw); lerr == nil {
							if ae, aerr := abstractDoc(emb); aerr == nil && Canon(orEmpty(ae.names())) != Canon(orEmpty(wantNP)) {
								extra, missing := diffStrings(ae.names(), wantNP)
								ctx.Res.Violate("generate-level:embedded-components:no-paths", fmt.Sprintf("a document without paths: the components of the embedded specification differ from the pruned document: extra %v, missing %v", extra, missing), replay)
							}
						}
					}
				}
			}
		}
	}
	spec0, err := loadDoc(doc)
	if err != nil {
		return nil
	}
	codegen.VerifPrune(spec0)
	a0, err := abstractDoc(spec0)
	if err != nil {
		return nil
	}
	kept := a0.names()
	doc["paths"].(J)["/zz-extra"] = J{"get": J{"operationId": "ZzExtra", "responses": J{"200": J{"description": "d",
		"content": J{"application/json": J{"schema": J{"$ref": "#/components/schemas/ZzOnly"}}}}}}}
	getJ(doc["components"].(J), "schemas")["ZzOnly"] = J{"type": "object", "properties": J{"v": J{"type": "string"}}}
	if len(g.Nodes)%2 == 0 {
		// the path item of the removed operation has a shared parameter list that refers to a component: the path item
		// stays in the embedded specification (without operations), so what it refers to stays as well
		doc["paths"].(J)["/zz-extra"].(J)["parameters"] = []interface{}{J{"$ref": "#/components/parameters/ZzShared"}}
		getJ(doc["components"].(J), "parameters")["ZzShared"] = J{"name": "X-Zz", "in": "header", "schema": J{"type": "string"}}
		kept = append(kept, "#/components/parameters/ZzShared")
		sort.Strings(kept)
		ctx.Res.Count("generate-level:path-item-without-operations-keeps-its-parameters")
	}
	spec, err := loadDoc(doc)
	if err != nil {
		// kin-openapi's loader gives up on some reference cycles depending on the order it meets them ("circular schema
		// reference not handled"); the graph alone loaded, the extended document does not: nothing to generate from
		ctx.Res.Count("generate-level:skipped-unloadable")
		return nil
	}
	var o codegen.Configuration
	o.PackageName = "api"
	o.Generate.Models = true
	o.Generate.EmbeddedSpec = true
	o.OutputOptions.ExcludeOperationIDs = []string{"ZzExtra"}
	strictServer := len(g.Nodes)%2 == 1
	if strictServer {
		// a strict server declares a type per component response: only for those that are kept
		o.Generate.ChiServer, o.Generate.Strict = true, true
	}
	if len(g.Nodes)%3 == 1 {
		// exclude-schemas leaves Go types out; the document that is pruned and embedded is not its business: a schema
		// named there still counts with everything it refers to
		for _, e := range g.Edges {
			if e.From >= 0 && g.Nodes[e.From].Kind == "schemas" {
				o.OutputOptions.ExcludeSchemas = append(o.OutputOptions.ExcludeSchemas, g.Nodes[e.From].Name)
				ctx.Res.Count("generate-level:exclude-schemas-names-a-referring-schema")
				break
			}
		}
	}
	if dump := os.Getenv("C15_DUMP"); dump != "" {
		os.WriteFile(dump, []byte(Canon(doc)), 0o644)
	}
	src, err := generate(spec, o)
	ctx.Res.Eval(J{"generate": J{"nodes": g.Nodes, "edges": g.Edges}}, len(g.Edges) > 0)
	if err != nil {
		// constructs of the graph that the type generator does not take are C01's subject
		ctx.Res.Count("generate-level:not-generated")
		return nil
	}
	ctx.Res.Count("generate-level:generated")
	replay := J{"doc": doc, "graph": J{"nodes": g.Nodes, "edges": g.Edges}, "exclude-operation-ids": []string{"ZzExtra"}}
	f, _, err := parseGo(src)
	if err != nil {
		ctx.Res.Violate("generate-level:unparsable", "output does not parse: "+err.Error(), replay)
		return nil
	}
	raw, err := decodeEmbedded(f)
	if err != nil {
		ctx.Res.Violate("generate-level:embedded-undecodable", err.Error(), replay)
		return nil
	}
	l := openapi3.NewLoader()
	emb, err := l.LoadFromData(raw)
	if err != nil {
		ctx.Res.Violate("generate-level:embedded-unloadable:"+errorClass(firstLine(err.Error())), "the embedded specification does not load (dangling reference?): "+err.Error(), replay)
		return nil
	}
	if strictServer {
		keptSet := map[string]bool{}
		for _, k := range kept {
			keptSet[k] = true
		}
		for _, nd := range g.Nodes {
			if nd.Kind != "responses" || keptSet["#/components/responses/"+nd.Name] {
				continue
			}
			re := regexp.MustCompile("^" + regexp.QuoteMeta(nd.Name) + "([A-Z][A-Za-z0-9]*)?Response$")
			for _, tn := range typeDeclNames(f) {
				if re.MatchString(tn) {
					ctx.Res.Violate("generate-level:type-of-a-removed-response", fmt.Sprintf("the strict server declares %s for the response component %s, which pruning removed", tn, nd.Name), replay)
				}
			}
		}
		ctx.Res.Count("generate-level:strict-server")
	}
	ae, err := abstractDoc(emb)
	if err != nil {
		return nil
	}
	got := ae.names()
	if Canon(orEmpty(got)) != Canon(orEmpty(kept)) {
		extra, missing := diffStrings(got, kept)
		kind := "kept-unreferenced"
		if len(missing) > 0 {
			kind = "lost"
		}
		ctx.Res.Violate("generate-level:embedded-components:"+kind, fmt.Sprintf("components of the embedded specification differ from the referenced set: extra %v, missing %v (operation ZzExtra and its schema ZzOnly are filtered out by id)", extra, missing), replay)
	}
	return nil
}

// allOfCycle: is there a cycle made of schema -> schema allOf edges only?
func allOfCycle(g *graph) bool {
	adj := map[int][]int{}
	for _, e := range g.Edges {
		if e.From >= 0 && e.Pos == "allOf" && g.Nodes[e.From].Kind == "schemas" {
			adj[e.From] = append(adj[e.From], e.To)
		}
	}
	state := map[int]int{}
	var visit func(int) bool
	visit = func(n int) bool {
		if state[n] == 1 {
			return true
		}
		if state[n] == 2 {
			return false
		}
		state[n] = 1
		for _, m := range adj[n] {
			if visit(m) {
				return true
			}
		}
		state[n] = 2
		return false
	}
	for n := range adj {
		if visit(n) {
			return true
		}
	}
	return false
}

func diffStrings(a, b []string) (onlyA, onlyB []string) {
	ma, mb := map[string]bool{}, map[string]bool{}
	for _, x := range a {
		ma[x] = true
	}
	for _, x := range b {
		mb[x] = true
	}
	for _, x := range a {
		if !mb[x] {
			onlyA = append(onlyA, x)
		}
	}
	for _, x := range b {
		if !ma[x] {
			onlyB = append(onlyB, x)
		}
	}
	return
}

func runC15(ctx *Ctx) error {
	ctx.Res.Rule = "reference graphs over the 8 prunable component kinds, edges placed at every $ref position (see distribution pos:*); " +
		"exhaustive part: for every (source kind, position, target kind) a root->A chain, a root->A-(pos)->B chain, an orphan A-(pos)->B chain and an orphan 2-cycle; " +
		"random part: graphs of 2..9 components with random edges; a third of them also through the whole generator (types + embedded specification) with one more operation that an operation-id filter removes: the components of the decoded embedded specification are exactly the referenced set; non-trivial = at least one edge; distinct by canonical JSON of the graph"
	ctx.Res.Rule += " Session 9: TRANS Gen/Pipeline.lean; fan scenarios (3/5/6/7 operation references, component references sorting before and after them, an orphan chain) through the hook and the whole generator."
	// every later component's name is a proper prefix of every earlier one (Nxxxxxxxxx, Nxxxxxxxx, …, N): a membership test
	// on references that is not exact (prefix, substring, case) keeps or drops the wrong component
	name := func(i int) string { return "N" + strings.Repeat("x", 9-i) }
	rootPosFor := func(kind string) string {
		for _, p := range c15Positions["root"] {
			if p.Target == kind {
				return p.Pos
			}
		}
		return ""
	}
	// exhaustive: every position, chains of depth 2
	for _, src := range append([]string{"root"}, pruneKinds...) {
		for _, p := range c15Positions[src] {
			if src == "root" {
				for _, rp := range c15Positions["root"] {
					if rp.Target != p.Target || rp.Pos != p.Pos {
						continue
					}
					g := &graph{Nodes: []gnode{{p.Target, name(0)}, {p.Target, name(1)}}, Edges: []gedge{{-1, 0, p.Pos}}}
					if err := c15Case(ctx, g, "root."+p.Pos); err != nil {
						return err
					}
				}
				continue
			}
			// root -> A(src) -pos-> B(target); plus orphan C(src) -pos-> D(target); plus orphan self-cycle where kinds allow
			g := &graph{Nodes: []gnode{{src, name(0)}, {p.Target, name(1)}, {src, name(2)}, {p.Target, name(3)}},
				Edges: []gedge{{-1, 0, rootPosFor(src)}, {0, 1, p.Pos}, {2, 3, p.Pos}}}
			if rootPosFor(src) == "" {
				// kinds with no root position are reached through another component (never the case today)
				g.Edges = g.Edges[1:]
			}
			if err := c15Case(ctx, g, src+"."+p.Pos); err != nil {
				return err
			}
			if src == p.Target && p.Pos != "direct" {
				// orphan 2-cycle A <-> B and a self loop
				g2 := &graph{Nodes: []gnode{{src, name(0)}, {src, name(1)}, {src, name(2)}},
					Edges: []gedge{{0, 1, p.Pos}, {1, 0, p.Pos}, {2, 2, p.Pos}}}
				if err := c15Case(ctx, g2, "cycle."+src+"."+p.Pos); err != nil {
					return err
				}
			}
			// depth-3 chain through this position: root -> X -> A(src) -pos-> B
			for _, via := range pruneKinds {
				for _, vp := range c15Positions[via] {
					if vp.Target != src || vp.Pos == "direct" || rootPosFor(via) == "" {
						continue
					}
					g3 := &graph{Nodes: []gnode{{via, name(0)}, {src, name(1)}, {p.Target, name(2)}},
						Edges: []gedge{{-1, 0, rootPosFor(via)}, {0, 1, vp.Pos}, {1, 2, p.Pos}}}
					if !ctx.Thorough() && ctx.Rng.Intn(4) != 0 {
						continue
					}
					if err := c15Case(ctx, g3, "chain3"); err != nil {
						return err
					}
				}
			}
		}
	}
	// long chains: an orphan chain of 12 components, each referred to only by the one before it (one round of removal
	// peels one component off), next to a referenced chain of the same length; orphan removal goes on until nothing is left
	for _, kind := range []string{"schemas", "responses"} {
		g := &graph{}
		chain := func(n int, prefix string, rooted bool) {
			base := len(g.Nodes)
			for i := 0; i < n; i++ {
				g.Nodes = append(g.Nodes, gnode{"schemas", fmt.Sprintf("%s%02d", prefix, i)})
				if i > 0 {
					g.Edges = append(g.Edges, gedge{base + i - 1, base + i, []string{"prop", "items", "addl"}[i%3]})
				}
			}
			if rooted {
				g.Edges = append(g.Edges, gedge{-1, base, rootPosFor("schemas")})
			}
		}
		chain(12, "Orphan", false)
		chain(12, "Kept", true)
		if kind == "responses" {
			// the orphan chain starts at an unreferenced response component
			g.Nodes = append(g.Nodes, gnode{"responses", "OrphanResp"})
			g.Edges = append(g.Edges, gedge{len(g.Nodes) - 1, 0, "content.schema"})
		}
		if err := c15Case(ctx, g, "long-chain."+kind); err != nil {
			return err
		}
	}
	ctx.Res.Extra["exhaustive_part_cases"] = ctx.Res.Evaluations
	// many references under the paths, few between components, and an orphan that makes a second sweep necessary: 3, 5, 6
	// and 7 operations' references (the sizes at which a list of them has spare capacity), a component reference whose text
	// sorts before theirs, one whose text sorts after
	for _, nr := range []int{3, 5, 6, 7} {
		g := &graph{}
		for i := 0; i < nr; i++ {
			g.Nodes = append(g.Nodes, gnode{"schemas", name(i)})
			g.Edges = append(g.Edges, gedge{-1, i, "op.param.schema"})
		}
		first := len(g.Nodes)
		g.Nodes = append(g.Nodes, gnode{"schemas", "A"}, gnode{"schemas", "Zz"}, gnode{"schemas", "Orphan"}, gnode{"schemas", "OrphanChild"})
		g.Edges = append(g.Edges, gedge{1, first, "prop"}, gedge{0, first + 1, "items"}, gedge{first + 2, first + 3, "prop"})
		if err := c15Case(ctx, g, fmt.Sprintf("fan.%d", nr)); err != nil {
			return err
		}
		if err := c15Generate(ctx, g, fmt.Sprintf("fan.%d", nr)); err != nil {
			return err
		}
	}
	// random graphs
	n := ctx.N(400, 6000)
	for i := 0; i < n; i++ {
		r := ctx.Rng.Fork()
		nn := 2 + r.Intn(8)
		g := &graph{}
		perKind := map[string]int{}
		for j := 0; j < nn; j++ {
			kind := pruneKinds[r.Intn(len(pruneKinds))]
			nm := name(j)
			if i%3 != 0 {
				// component sections are separate name spaces: the same key in several sections (the graphs that also go
				// through the type generator keep distinct names, Go types of two sections would collide)
				nm = name(perKind[kind])
				perKind[kind]++
				ctx.Res.Count("graph:keys-shared-between-sections")
			}
			g.Nodes = append(g.Nodes, gnode{kind, nm})
		}
		aliasUsed := map[int]bool{}
		ne := r.Intn(2 * nn)
		for k := 0; k < ne; k++ {
			from := r.Intn(nn+1) - 1
			src := "root"
			if from >= 0 {
				src = g.Nodes[from].Kind
			}
			ps := c15Positions[src]
			p := ps[r.Intn(len(ps))]
			var cands []int
			for j, nd := range g.Nodes {
				if nd.Kind == p.Target && !(p.Pos == "direct" && j == from) {
					cands = append(cands, j)
				}
			}
			if len(cands) == 0 {
				continue
			}
			if p.Pos == "direct" && src != "schemas" {
				if aliasUsed[from] {
					continue
				}
				aliasUsed[from] = true
			}
			if p.Pos == "op.requestBody" {
				dup := false
				for _, e := range g.Edges {
					if e.From == from && strings.HasPrefix(e.Pos, "op.body") || e.From == from && e.Pos == "op.requestBody" {
						dup = true
					}
				}
				if dup {
					continue
				}
			}
			if strings.HasPrefix(p.Pos, "op.body") {
				dup := false
				for _, e := range g.Edges {
					if e.From == from && e.Pos == "op.requestBody" {
						dup = true
					}
				}
				if dup {
					continue
				}
			}
			g.Edges = append(g.Edges, gedge{from, cands[r.Intn(len(cands))], p.Pos})
		}
		// an alias component carries no other edge
		var es []gedge
		for _, e := range g.Edges {
			if e.From >= 0 && aliasUsed[e.From] && !(e.Pos == "direct") {
				continue
			}
			es = append(es, e)
		}
		g.Edges = es
		// kin-openapi's loader overflows the stack (fatal, not recoverable) on a cycle through callbacks:
		// keep callback -> callback edges acyclic
		es = nil
		for _, e := range g.Edges {
			if e.From >= 0 && g.Nodes[e.From].Kind == "callbacks" && g.Nodes[e.To].Kind == "callbacks" && e.To <= e.From {
				continue
			}
			es = append(es, e)
		}
		g.Edges = es
		// alias cycles cannot be loaded; break them by dropping direct edges that point backwards
		es = nil
		for _, e := range g.Edges {
			if e.Pos == "direct" && e.From >= 0 && g.Nodes[e.From].Kind != "schemas" && e.To >= e.From {
				continue
			}
			if e.Pos == "direct" && e.From >= 0 && g.Nodes[e.From].Kind == "schemas" && e.To >= e.From {
				continue
			}
			es = append(es, e)
		}
		g.Edges = es
		if err := c15Case(ctx, g, "random"); err != nil {
			if strings.Contains(err.Error(), "unloadable") {
				ctx.Res.Count("skipped-unloadable")
				continue
			}
			return err
		}
		if i%3 == 0 {
			if err := c15Generate(ctx, g, "random"); err != nil {
				return err
			}
		}
	}
	ctx.Res.Exhaustive = false
	return nil
}

func init() { register("c15", runC15) }
