package main

import (
	"encoding/json"
	"fmt"
	"go/ast"
	"go/token"
	"reflect"
	"sort"
	"strconv"
	"strings"

	"github.com/oapi-codegen/oapi-codegen/v2/pkg/codegen"
)

// C09 — union types store, return and dispatch the right member.

// ---------- sample values from the generated file's AST ----------

type astIndex struct {
	f     *ast.File
	types map[string]ast.Expr
}

func newASTIndex(f *ast.File) *astIndex {
	ix := &astIndex{f: f, types: map[string]ast.Expr{}}
	for _, d := range f.Decls {
		gd, ok := d.(*ast.GenDecl)
		if !ok || gd.Tok != token.TYPE {
			continue
		}
		for _, sp := range gd.Specs {
			ts := sp.(*ast.TypeSpec)
			ix.types[ts.Name.Name] = ts.Type
		}
	}
	return ix
}

// sample builds a JSON instance for a Go type expression of the generated file. variant changes the scalars.
func (ix *astIndex) sample(e ast.Expr, variant, depth int) (interface{}, bool) {
	if depth > 6 {
		return nil, false
	}
	switch t := e.(type) {
	case *ast.Ident:
		switch t.Name {
		case "string":
			return fmt.Sprintf("s%d", variant), true
		case "bool":
			return variant%2 == 0, true
		case "int", "int32", "int64", "int16", "int8", "uint", "uint32", "uint64":
			return float64(variant + 1), true
		case "float32", "float64":
			return float64(variant) + 1.5, true
		}
		if u, ok := ix.types[t.Name]; ok {
			return ix.sample(u, variant, depth+1)
		}
		return nil, false
	case *ast.StarExpr:
		return ix.sample(t.X, variant, depth)
	case *ast.ArrayType:
		v, ok := ix.sample(t.Elt, variant, depth+1)
		if !ok {
			return nil, false
		}
		return []interface{}{v}, true
	case *ast.MapType:
		v, ok := ix.sample(t.Value, variant, depth+1)
		if !ok {
			return nil, false
		}
		return map[string]interface{}{"k": v}, true
	case *ast.InterfaceType:
		return "any", true
	case *ast.SelectorExpr:
		switch exprStr(t) {
		case "openapi_types.Date":
			return "2021-02-03", true
		case "openapi_types.UUID":
			return "123e4567-e89b-12d3-a456-426614174000", true
		case "time.Time":
			return "2021-02-03T04:05:06Z", true
		case "openapi_types.Email":
			return "a@b.c", true
		}
		return nil, false
	case *ast.StructType:
		obj := map[string]interface{}{}
		for _, fl := range t.Fields.List {
			if fl.Tag == nil || len(fl.Names) == 0 {
				continue
			}
			tag := reflect.StructTag(strings.Trim(fl.Tag.Value, "`")).Get("json")
			name := strings.Split(tag, ",")[0]
			if name == "" || name == "-" {
				continue
			}
			v, ok := ix.sample(fl.Type, variant, depth+1)
			if !ok {
				return nil, false
			}
			obj[name] = v
		}
		return obj, true
	}
	return nil, false
}

type unionInfo struct {
	Name     string
	Members  map[string]string // method suffix -> member Go type
	HasDisc  bool
	HasVBD   bool
	Cases    map[string]string // ValueByDiscriminator: value -> As<suffix>
	Fixed    []string          // JSON names of the union's own properties
	HasAddl  bool
	FromSets map[string][]string // method suffix -> discriminator values assigned in From, in order
}

// unionsOf lists the union types of the file (structs with a `union` field) and their accessors.
func unionsOf(f *ast.File) map[string]*unionInfo {
	out := map[string]*unionInfo{}
	for _, d := range f.Decls {
		gd, ok := d.(*ast.GenDecl)
		if !ok || gd.Tok != token.TYPE {
			continue
		}
		for _, sp := range gd.Specs {
			ts := sp.(*ast.TypeSpec)
			st, ok := ts.Type.(*ast.StructType)
			if !ok {
				continue
			}
			isUnion := false
			u := &unionInfo{Name: ts.Name.Name, Members: map[string]string{}, Cases: map[string]string{}, FromSets: map[string][]string{}}
			for _, fl := range st.Fields.List {
				for _, n := range fl.Names {
					if n.Name == "union" {
						isUnion = true
					}
					if n.Name == "AdditionalProperties" {
						u.HasAddl = true
					}
				}
				if fl.Tag != nil && len(fl.Names) > 0 {
					name := strings.Split(reflect.StructTag(strings.Trim(fl.Tag.Value, "`")).Get("json"), ",")[0]
					if name != "" && name != "-" {
						u.Fixed = append(u.Fixed, name)
					}
				}
			}
			if isUnion {
				out[u.Name] = u
			}
		}
	}
	for _, d := range f.Decls {
		fd, ok := d.(*ast.FuncDecl)
		if !ok || fd.Recv == nil || len(fd.Recv.List) != 1 {
			continue
		}
		recv := strings.TrimPrefix(exprStr(fd.Recv.List[0].Type), "*")
		u, ok := out[recv]
		if !ok {
			continue
		}
		n := fd.Name.Name
		switch {
		case strings.HasPrefix(n, "From") && fd.Type.Params.NumFields() == 1:
			suffix := strings.TrimPrefix(n, "From")
			u.Members[suffix] = exprStr(fd.Type.Params.List[0].Type)
			// the discriminator assignments: v.<Prop> = "<value>" / t.<Prop> = "<value>"
			ast.Inspect(fd.Body, func(nd ast.Node) bool {
				if vs, ok := nd.(*ast.ValueSpec); ok && len(vs.Values) == 1 {
					if bl, ok := vs.Values[0].(*ast.BasicLit); ok && bl.Kind == token.STRING {
						s, _ := strconv.Unquote(bl.Value)
						u.FromSets[suffix] = append(u.FromSets[suffix], s)
					}
					return true
				}
				as, ok := nd.(*ast.AssignStmt)
				if !ok || len(as.Rhs) != 1 {
					return true
				}
				if bl, ok := as.Rhs[0].(*ast.BasicLit); ok && bl.Kind == token.STRING {
					s, _ := strconv.Unquote(bl.Value)
					u.FromSets[suffix] = append(u.FromSets[suffix], s)
				}
				return true
			})
		case n == "Discriminator":
			u.HasDisc = true
		case n == "ValueByDiscriminator":
			u.HasVBD = true
			ast.Inspect(fd.Body, func(nd ast.Node) bool {
				cc, ok := nd.(*ast.CaseClause)
				if !ok || len(cc.List) != 1 || len(cc.Body) != 1 {
					return true
				}
				bl, ok := cc.List[0].(*ast.BasicLit)
				if !ok {
					return true
				}
				val, _ := strconv.Unquote(bl.Value)
				if rs, ok := cc.Body[0].(*ast.ReturnStmt); ok && len(rs.Results) == 1 {
					if call, ok := rs.Results[0].(*ast.CallExpr); ok {
						if sel, ok := call.Fun.(*ast.SelectorExpr); ok {
							u.Cases[val] = strings.TrimPrefix(sel.Sel.Name, "As")
						}
					}
				}
				return true
			})
		}
	}
	return out
}

// ---------- documents ----------

// c09DP is the discriminator property name of the document being built or examined: "kind", or a name whose Go field
// name differs from it in more than the case of letters (pet_type -> PetType)
var c09DP = "kind"

func c09Objects() map[string]J {
	dp := c09DP
	return map[string]J{
		"Cat":       {"type": "object", "required": []interface{}{dp}, "properties": J{dp: J{"type": "string"}, "name": J{"type": "string"}}},
		"Dog":       {"type": "object", "required": []interface{}{dp}, "properties": J{dp: J{"type": "string"}, "bark": J{"type": "boolean"}}},
		"guard-dog": {"type": "object", "required": []interface{}{dp}, "properties": J{dp: J{"type": "string"}, "level": J{"type": "integer"}}},
		"bird_2":    {"type": "object", "required": []interface{}{dp}, "properties": J{dp: J{"type": "string"}, "wings": J{"type": "integer"}, "name": J{"type": "string"}}},
		// a name that ends in another member's name: reference matching by suffix or substring confuses the two
		"BigCat": {"type": "object", "required": []interface{}{dp}, "properties": J{dp: J{"type": "string"}, "size": J{"type": "integer"}}},
		// a name with a dot (namespaced schema names are common): the implicit discriminator value is the whole name
		"zoo.Owl": {"type": "object", "required": []interface{}{dp}, "properties": J{dp: J{"type": "string"}, "hoots": J{"type": "integer"}}},
	}
}

var c09GoType = map[string]string{"Cat": "Cat", "Dog": "Dog", "guard-dog": "GuardDog", "bird_2": "Bird2", "BigCat": "BigCat", "zoo.Owl": "ZooOwl"}

type c09Union struct {
	Name     string
	Keyword  string   // oneOf | anyOf
	Refs     []string // object members (schema names)
	Prims    []string // string | integer | strings | inlineObj
	Disc     string   // "" | implicit | explicit | partial | many
	Explicit [][2]string
	Fixed    string // "" | meta | kind (the union's own property named like the discriminator)
	Addl     bool
}

func c09Ref(n string) string { return "#/components/schemas/" + n }

func c09GenUnion(r *Rng, idx int) c09Union {
	u := c09Union{Name: fmt.Sprintf("U%d", idx), Keyword: r.Pick([]string{"oneOf", "anyOf"})}
	names := []string{"Cat", "Dog", "guard-dog", "bird_2", "BigCat", "zoo.Owl"}
	n := 1 + r.Intn(4)
	for _, i := range r.Perm(6)[:n] {
		u.Refs = append(u.Refs, names[i])
	}
	if r.Chance(35) {
		// the suffix-related pair together, in either order
		u.Refs = []string{"BigCat", "Cat"}
		if r.Bool() {
			u.Refs = []string{"Cat", "BigCat"}
		}
		if r.Bool() {
			u.Refs = append(u.Refs, "Dog")
		}
	}
	if r.Chance(55) {
		u.Disc = r.Pick([]string{"implicit", "explicit", "partial", "many"})
	} else if r.Chance(50) {
		for _, i := range r.Perm(4)[:1+r.Intn(2)] {
			u.Prims = append(u.Prims, []string{"string", "integer", "strings", "inlineObj"}[i])
		}
	}
	keyFor := map[string]string{"Cat": "cat", "Dog": "dog", "guard-dog": "guard", "bird_2": "bird", "BigCat": "big", "zoo.Owl": "owl"}
	switch u.Disc {
	case "explicit", "many":
		for _, m := range u.Refs {
			u.Explicit = append(u.Explicit, [2]string{keyFor[m], c09Ref(m)})
		}
		if u.Disc == "many" {
			m := u.Refs[r.Intn(len(u.Refs))]
			u.Explicit = append(u.Explicit, [2]string{"aka-" + keyFor[m], c09Ref(m)}, [2]string{"zz-" + keyFor[m], c09Ref(m)})
		}
	case "partial":
		for i, m := range u.Refs {
			if i%2 == 0 {
				u.Explicit = append(u.Explicit, [2]string{keyFor[m], c09Ref(m)})
			}
		}
	}
	// a union with properties or additionalProperties of its own is an object: its members are objects
	if len(u.Prims) == 0 {
		switch r.Intn(5) {
		case 0:
			u.Fixed = "meta"
		case 1:
			if u.Disc != "" {
				u.Fixed = "kind"
			}
		case 2:
			// a required, nullable member of the union itself that some members declare too: nil is written as null and
			// wins over the stored member's value
			u.Fixed = "name"
		}
		u.Addl = r.Chance(20)
	}
	return u
}

func (u c09Union) Schema() J {
	var members []interface{}
	for _, m := range u.Refs {
		members = append(members, J{"$ref": c09Ref(m)})
	}
	for _, p := range u.Prims {
		switch p {
		case "string":
			members = append(members, J{"type": "string"})
		case "integer":
			members = append(members, J{"type": "integer"})
		case "strings":
			members = append(members, J{"type": "array", "items": J{"type": "string"}})
		case "inlineObj":
			members = append(members, J{"type": "object", "properties": J{"inl": J{"type": "string"}}})
		}
	}
	s := J{u.Keyword: members}
	if u.Disc != "" {
		d := J{"propertyName": c09DP}
		if len(u.Explicit) > 0 {
			mp := J{}
			for _, e := range u.Explicit {
				mp[e[0]] = e[1]
			}
			d["mapping"] = mp
		}
		s["discriminator"] = d
	}
	switch u.Fixed {
	case "meta":
		s["properties"] = J{"meta": J{"type": "string"}}
	case "name":
		s["properties"] = J{"name": J{"type": "string", "nullable": true}}
		s["required"] = []interface{}{"name"}
	case "kind":
		// next to the discriminator property another string member that sorts after it: the discriminator is that one
		// property, not the last string member of the union
		s["properties"] = J{c09DP: J{"type": "string"}, "zone": J{"type": "string"}}
	}
	if u.Fixed != "" {
		s["type"] = "object"
	}
	if u.Addl {
		s["type"] = "object"
		s["additionalProperties"] = true
	}
	return s
}

// table: discriminator value -> member schema name, from the document alone.
func (u c09Union) Table() map[string]string {
	t := map[string]string{}
	mapped := map[string]bool{}
	for _, e := range u.Explicit {
		name := strings.TrimPrefix(e[1], "#/components/schemas/")
		for _, m := range u.Refs {
			if m == name {
				t[e[0]] = m
				mapped[m] = true
			}
		}
	}
	for _, m := range u.Refs {
		if !mapped[m] {
			t[m] = m
		}
	}
	return t
}

func overlay(a, b interface{}) interface{} {
	ao, ok1 := a.(map[string]interface{})
	bo, ok2 := b.(map[string]interface{})
	if !ok1 || !ok2 {
		return b
	}
	out := map[string]interface{}{}
	for k, v := range ao {
		out[k] = v
	}
	for k, v := range bo {
		if prev, ok := out[k]; ok {
			out[k] = overlay(prev, v)
		} else {
			out[k] = v
		}
	}
	return out
}

func jsonOf(v interface{}) string {
	b, _ := json.Marshal(v)
	return string(b)
}

func raw(v interface{}) json.RawMessage { b, _ := json.Marshal(v); return b }

// c09OwnFields: the union's own properties as the model sees them (name, optional-and-nil-able), in the order of the Go
// struct (sorted names). Unions with additional properties go through another template and are not modelled.
func c09OwnFields(u c09Union) []J {
	switch u.Fixed {
	case "meta":
		return []J{{"name": "meta", "optNil": true}}
	case "name":
		return []J{{"name": "name", "optNil": false}}
	case "kind":
		fs := []J{{"name": c09DP, "optNil": true}, {"name": "zone", "optNil": true}}
		if c09DP > "zone" {
			fs[0], fs[1] = fs[1], fs[0]
		}
		return fs
	}
	return []J{}
}

func c09ObjPairs(o map[string]interface{}) [][]string {
	out := [][]string{}
	for _, k := range SortedKeys(o) {
		out = append(out, []string{k, jsonOf(o[k])})
	}
	return out
}

// c09ModelJSON asks Model/UnionJson.lean for the object the union marshals to and returns it as JSON text.
func c09ModelJSON(ctx *Ctx, req J) (string, error) {
	var pairs [][]string
	req["fn"] = "unionJson"
	if err := ctx.Model(req, &pairs); err != nil {
		return "", err
	}
	var b strings.Builder
	b.WriteString("{")
	for i, kv := range pairs {
		if i > 0 {
			b.WriteString(",")
		}
		b.WriteString(jsonOf(kv[0]) + ":" + kv[1])
	}
	b.WriteString("}")
	return b.String(), nil
}

func runC09(ctx *Ctx) error {
	ctx.Res.Rule = "seeded unions (oneOf/anyOf of 1-4 referenced objects incl. names needing normalisation, plus primitive/array/inline members; discriminator none/implicit/explicit/partial/many-to-one; the union's own fixed properties incl. one named like the discriminator; additionalProperties (a fixed member never shows among the additional ones); nested in a property, an array and a map) compiled; every From/As/Merge/Discriminator/ValueByDiscriminator of every union type called through reflection on sample member values; CORR: the case table of ValueByDiscriminator and the values assigned by From* (AST) vs the Lean table; non-trivial = every (union, member) pair Session 9: CORR of MarshalJSON after From and of decode/encode with Model/UnionJson.lean (with and without additional properties); a required nullable member of the union itself; an inline union with explicit mapping inherited through allOf; integers beyond 2^53 compared digit for digit."
	kit, err := NewRunKit(ctx.Work)
	if err != nil {
		return err
	}
	defer kit.Close()
	nd := ctx.N(12, 120)
	type dc struct {
		unions []c09Union
		p      *RunPkg
		dp     string
	}
	var docs []dc
	for d := 0; d < nd; d++ {
		r := ctx.Rng.Fork()
		c09DP = []string{"kind", "pet_type"}[d%2]
		schemas := J{}
		for k, v := range c09Objects() {
			schemas[k] = copyJ(v)
		}
		var us []c09Union
		for i := 0; i < 4; i++ {
			u := c09GenUnion(r, i)
			us = append(us, u)
			schemas[u.Name] = u.Schema()
		}
		schemas["Holder"] = J{"type": "object", "properties": J{"one": J{"$ref": c09Ref("U0")}, "many": J{"type": "array", "items": J{"$ref": c09Ref("U1")}},
			"byName": J{"type": "object", "additionalProperties": J{"$ref": c09Ref("U2")}},
			"inline": J{"oneOf": []interface{}{J{"$ref": c09Ref("Cat")}, J{"$ref": c09Ref("Dog")}}}}}
		// an inline union with an explicit mapping as a property, and a composition that inherits that property: the union
		// schema is visited once for each of the two types it is generated under
		schemas["House"] = J{"type": "object", "properties": J{"pet": J{"oneOf": []interface{}{J{"$ref": c09Ref("Cat")}, J{"$ref": c09Ref("Dog")}},
			"discriminator": J{"propertyName": c09DP, "mapping": J{"cat": c09Ref("Cat"), "kitten": c09Ref("Cat"), "dog": c09Ref("Dog")}}}}}
		schemas["Shelter"] = J{"allOf": []interface{}{J{"$ref": c09Ref("House")}, J{"type": "object", "properties": J{"capacity": J{"type": "integer"}}}}}
		doc := J{"openapi": "3.0.3", "info": J{"title": "t", "version": "1"}, "paths": J{}, "components": J{"schemas": schemas}}
		var cfg codegen.Configuration
		cfg.Generate.Models = true
		cfg.OutputOptions.SkipPrune = true
		p := kit.Add(&RunPkg{Name: fmt.Sprintf("c09_%d", d), Doc: doc, Cfg: cfg})
		docs = append(docs, dc{us, p, c09DP})
	}
	kit.Prepare()
	for _, d := range docs {
		c09DP = d.dp
		replayDoc := J{"doc": d.p.Doc}
		if d.p.GenErr != nil {
			ctx.Res.Violate("generate-error:"+errorClass(d.p.GenErr.Error()), "generation fails: "+firstLine(d.p.GenErr.Error()), replayDoc)
			continue
		}
		if d.p.BuildErr != "" {
			ctx.Res.Violate("compile:"+errorClass(d.p.BuildErr), "the generated unions do not compile: "+firstLines(d.p.BuildErr, 2), replayDoc)
			continue
		}
		f, _, err := parseGo(d.p.Src)
		if err != nil {
			return err
		}
		ix := newASTIndex(f)
		infos := unionsOf(f)
		for _, u := range d.unions {
			info := infos[u.Name]
			sig := fmt.Sprintf("%s:disc=%s:fixed=%s:addl=%v:prims=%d", u.Keyword, u.Disc, u.Fixed, u.Addl, len(u.Prims))
			replay := J{"doc": d.p.Doc, "union": u}
			ctx.Res.Count("disc:" + u.Disc)
			ctx.Res.Count("fixed:" + u.Fixed)
			if info == nil {
				ctx.Res.Violate("no-union-type:"+sig, "no union type generated for "+u.Name, replay)
				continue
			}
			if len(info.Members) != len(u.Refs)+len(u.Prims) {
				ctx.Res.Violate("members:"+sig, fmt.Sprintf("%d accessors for %d members", len(info.Members), len(u.Refs)+len(u.Prims)), replay)
			}
			table := u.Table()
			// CORR: the generated dispatch table vs the model's
			if u.Disc != "" {
				var names, types [][2]string
				var elements []string
				for _, m := range u.Refs {
					names = append(names, [2]string{c09Ref(m), m})
					types = append(types, [2]string{c09Ref(m), c09GoType[m]})
					elements = append(elements, c09Ref(m))
				}
				explicit := u.Explicit
				if explicit == nil {
					explicit = [][2]string{}
				}
				var mres struct {
					Table   [][2]string  `json:"table"`
					Written [][2]*string `json:"written"`
				}
				if err := ctx.Model(J{"fn": "unionTable", "explicit": explicit, "names": names, "types": types, "elements": elements}, &mres); err != nil {
					return err
				}
				mt := map[string]string{}
				for _, e := range mres.Table {
					mt[e[0]] = e[1]
				}
				if Canon(mt) != Canon(info.Cases) {
					ctx.Res.Disagree("CORR ValueByDiscriminator case table vs Union.table", replay, mt, info.Cases)
				}
				for _, w := range mres.Written {
					if w[0] == nil {
						continue
					}
					got := info.FromSets[*w[0]]
					last := ""
					if len(got) > 0 {
						last = got[len(got)-1]
					}
					want := ""
					if w[1] != nil {
						want = *w[1]
					}
					if last != want {
						ctx.Res.Disagree("CORR value assigned by From"+*w[0]+" vs Union.written", replay, want, got)
					}
				}
			}
			// keys per member type
			keysOf := map[string][]string{}
			for k, m := range table {
				keysOf[c09GoType[m]] = append(keysOf[c09GoType[m]], k)
			}
			for _, ks := range keysOf {
				sort.Strings(ks)
			}
			suffixes := SortedKeys(info.Members)
			samples := map[string]interface{}{}
			for i, sfx := range suffixes {
				mt := info.Members[sfx]
				v, ok := ix.sample(&ast.Ident{Name: mt}, i, 0)
				if !ok {
					continue
				}
				if o, isObj := v.(map[string]interface{}); isObj {
					if _, has := o[c09DP]; has {
						o[c09DP] = "caller-value"
					}
				}
				samples[sfx] = v
			}
			stored := func(sfx string) interface{} {
				v := jsonRoundTrip(samples[sfx])
				if o, isObj := v.(map[string]interface{}); isObj && u.Disc != "" {
					ks := keysOf[info.Members[sfx]]
					if len(ks) > 0 {
						o[c09DP] = ks[len(ks)-1]
					}
				}
				return v
			}
			// the union's own required nullable member is nil after From/Merge: it is written as null over the member's
			withOwn := func(v interface{}) interface{} {
				o, isObj := v.(map[string]interface{})
				if !isObj || u.Fixed != "name" {
					return v
				}
				c := map[string]interface{}{}
				for k, x := range o {
					c[k] = x
				}
				c["name"] = nil
				return c
			}
			for _, sfx := range suffixes {
				v, ok := samples[sfx]
				if !ok {
					continue
				}
				ctx.Res.Eval(J{"union": sig, "member": info.Members[sfx]}, true)
				steps := []J{{"m": "From" + sfx, "args": []json.RawMessage{raw(v)}}, {"m": "As" + sfx, "args": []json.RawMessage{}}}
				if u.Disc != "" {
					steps = append(steps, J{"m": "Discriminator", "args": []json.RawMessage{}}, J{"m": "ValueByDiscriminator", "args": []json.RawMessage{}})
				}
				resp, err := d.p.Call(J{"do": "methods", "type": u.Name, "steps": steps})
				if err != nil {
					return err
				}
				results, _ := resp["results"].([]interface{})
				want := stored(sfx)
				val := func(i int) (string, string, string) {
					if i >= len(results) {
						return "", "", "missing"
					}
					rm, _ := results[i].(map[string]interface{})
					if e, ok := rm["error"].(string); ok {
						return "", "", e
					}
					vals, _ := rm["values"].([]interface{})
					if len(vals) == 0 {
						return "", "", ""
					}
					vm, _ := vals[0].(map[string]interface{})
					js, _ := vm["json"].(string)
					dyn, _ := vm["dyn"].(string)
					return js, dyn, ""
				}
				if _, _, e := val(0); e != "" {
					ctx.Res.Violate("from-error:"+sig, "From"+sfx+" fails: "+e, replay)
					continue
				}
				asJS, _, e := val(1)
				if e != "" || !jsonEqual(asJS, jsonOf(want)) {
					ctx.Res.Violate("as-from:"+sig, fmt.Sprintf("From%s(%s) then As%s() gives %s %s; expected %s", sfx, jsonOf(v), sfx, asJS, e, jsonOf(want)), replay)
				}
				out, _ := resp["out"].(string)
				if wo, isObj := want.(map[string]interface{}); isObj && !u.Addl {
					// CORR: what Model/UnionJson.lean says the union marshals to after From<Member> on a fresh value — the stored
					// member (as the accessor returns it) under the own fields (all nil but the discriminator From assigns)
					fs := c09OwnFields(u)
					own := make([]interface{}, len(fs))
					for i, f := range fs {
						if f["name"] == c09DP && u.Fixed == "kind" {
							if dv, has := wo[c09DP]; has {
								own[i] = jsonOf(dv)
							}
						}
					}
					model, merr := c09ModelJSON(ctx, J{"fields": fs, "raw": c09ObjPairs(wo), "own": own})
					if merr != nil {
						return merr
					}
					ctx.Res.Count("corr:union-marshal")
					if !jsonEqual(out, model) {
						ctx.Res.Disagree("CORR MarshalJSON after From"+sfx+" vs UnionJson.marshal", J{"union": sig, "member": wo}, model, out)
					}
				}
				if !jsonEqual(out, jsonOf(withOwn(want))) {
					ctx.Res.Violate("marshal:"+sig, fmt.Sprintf("after From%s(%s) the union marshals to %s; expected %s", sfx, jsonOf(v), out, jsonOf(withOwn(want))), replay)
				}
				if u.Disc != "" {
					dj, _, e := val(2)
					ks := keysOf[info.Members[sfx]]
					okKey := false
					for _, k := range ks {
						if dj == jsonOf(k) {
							okKey = true
						}
					}
					if e != "" || !okKey {
						ctx.Res.Violate("discriminator:"+sig, fmt.Sprintf("after From%s the discriminator is %s %s; values mapped to the member: %v", sfx, dj, e, ks), replay)
					}
					_, dyn, e := val(3)
					if e != "" || dyn != "main."+info.Members[sfx] {
						ctx.Res.Violate("dispatch-after-from:"+sig, fmt.Sprintf("after From%s ValueByDiscriminator returns %q %s; expected %s", sfx, dyn, e, info.Members[sfx]), replay)
					}
				}
			}
			// Merge: every ordered pair of object members
			for _, a := range suffixes {
				for _, b := range suffixes {
					va, oka := samples[a].(map[string]interface{})
					vb, okb := samples[b].(map[string]interface{})
					if !oka || !okb || a == b {
						continue
					}
					_, _ = va, vb
					resp, err := d.p.Call(J{"do": "methods", "type": u.Name, "steps": []J{
						{"m": "From" + a, "args": []json.RawMessage{raw(samples[a])}}, {"m": "Merge" + b, "args": []json.RawMessage{raw(samples[b])}}}})
					if err != nil {
						return err
					}
					ctx.Res.Count("merge")
					want := withOwn(overlay(stored(a), stored(b)))
					out, _ := resp["out"].(string)
					if !jsonEqual(out, jsonOf(want)) {
						ctx.Res.Violate("merge:"+sig, fmt.Sprintf("From%s then Merge%s gives %s; the overlay of the new member onto the stored one is %s", a, b, out, jsonOf(want)), replay)
					}
				}
			}
			// a member carrying an integer that no float64 holds (2^53+1, the largest int64): a union with properties of its own
			// decodes and encodes it digit for digit, and so does the accessor of the member
			if len(u.Prims) == 0 {
				intField := map[string]string{"guard-dog": "level", "bird_2": "wings", "BigCat": "size", "zoo.Owl": "hoots"}
				for _, m := range u.Refs {
					fld, ok := intField[m]
					if !ok {
						continue
					}
					for _, big := range []string{"9007199254740993", "9223372036854775807", "-9007199254740993"} {
						key := "x"
						for k, mm := range table {
							if mm == m {
								key = k
							}
						}
						inst := fmt.Sprintf(`{%s:%s,%s:%s`, jsonOf(c09DP), jsonOf(key), jsonOf(fld), big)
						if u.Fixed == "meta" {
							inst += `,"meta":"m"`
						}
						if u.Fixed == "name" {
							inst += `,"name":null`
						}
						if u.Addl {
							inst += `,"extra_key":"e"`
						}
						inst += "}"
						resp, err := d.p.Call(J{"do": "json", "type": u.Name, "data": inst})
						if err != nil {
							return err
						}
						ctx.Res.Count("lossless:big-integer")
						out, _ := resp["out"].(string)
						if !jsonEqualExact(out, inst) {
							ctx.Res.Violate("lossless-big-integer:"+sig, fmt.Sprintf("%s decoded and encoded again is %s", inst, out), replay)
						}
					}
				}
			}
			// a union with fixed and additional properties: after decoding, the fixed member is not among the additional
			// ones and the extra member is
			if u.Addl && u.Fixed != "" {
				fixedProp := u.Fixed
				if fixedProp == "kind" { // the fixed member named like the discriminator
					fixedProp = c09DP
				}
				o := map[string]interface{}{fixedProp: "m", "extra_key": "e"}
				resp, err := d.p.Call(J{"do": "methods", "type": u.Name, "data": jsonOf(o), "steps": []J{
					{"m": "Get", "args": []json.RawMessage{raw(fixedProp)}}, {"m": "Get", "args": []json.RawMessage{raw("extra_key")}}}})
				if err != nil {
					return err
				}
				ctx.Res.Count("additional-vs-fixed")
				found := func(i int) string {
					results, _ := resp["results"].([]interface{})
					if i >= len(results) {
						return "?"
					}
					rm, _ := results[i].(map[string]interface{})
					vals, _ := rm["values"].([]interface{})
					if len(vals) != 2 {
						return "?"
					}
					f, _ := vals[1].(map[string]interface{})["json"].(string)
					return f
				}
				if found(0) != "false" || found(1) != "true" {
					ctx.Res.Violate("additional-vs-fixed:"+sig, fmt.Sprintf("after decoding %s: Get(%q) found=%s (a declared member is no additional one), Get(\"extra_key\") found=%s", jsonOf(o), fixedProp, found(0), found(1)), replay)
				}
			}
			// dispatch for every mapped value, lossless decode/encode with fixed and additional properties
			if u.Disc != "" {
				for _, k := range SortedKeys(table) {
					gt := c09GoType[table[k]]
					v, ok := ix.sample(&ast.Ident{Name: gt}, 3, 0)
					if !ok {
						continue
					}
					o := v.(map[string]interface{})
					o[c09DP] = k
					if u.Fixed == "meta" {
						o["meta"] = "m"
					}
					if u.Fixed == "name" {
						// required: a valid instance has it, as null or as a string
						if _, has := o["name"]; !has {
							o["name"] = nil
						}
					}
					if u.Addl {
						o["extra_key"] = "e"
					}
					resp, err := d.p.Call(J{"do": "methods", "type": u.Name, "data": jsonOf(o), "steps": []J{{"m": "ValueByDiscriminator", "args": []json.RawMessage{}}}})
					if err != nil {
						return err
					}
					ctx.Res.Count("dispatch")
					results, _ := resp["results"].([]interface{})
					dyn, e := "", ""
					if len(results) == 1 {
						rm, _ := results[0].(map[string]interface{})
						e, _ = rm["error"].(string)
						if vals, _ := rm["values"].([]interface{}); len(vals) > 0 {
							dyn, _ = vals[0].(map[string]interface{})["dyn"].(string)
						}
					}
					if dyn != "main."+gt {
						ctx.Res.Violate("dispatch:"+sig, fmt.Sprintf("discriminator value %q is mapped to %s; ValueByDiscriminator returns %q %s", k, gt, dyn, e), replay)
					}
					out, _ := resp["out"].(string)
					{
						model, merr := c09ModelJSON(ctx, J{"fields": c09OwnFields(u), "decode": c09ObjPairs(o), "additional": u.Addl})
						if merr != nil {
							return merr
						}
						ctx.Res.Count("corr:union-decode-encode")
						if !jsonEqual(out, model) {
							ctx.Res.Disagree("CORR UnmarshalJSON then MarshalJSON vs UnionJson.marshal∘unmarshal", J{"union": sig, "instance": o}, model, out)
						}
					}
					if !jsonEqual(out, jsonOf(o)) {
						ctx.Res.Violate("lossless:"+sig, fmt.Sprintf("%s decoded and encoded again is %s", jsonOf(o), out), replay)
					}
				}
				resp, err := d.p.Call(J{"do": "methods", "type": u.Name, "data": jsonOf(J{c09DP: "no-such-value"}), "steps": []J{{"m": "ValueByDiscriminator", "args": []json.RawMessage{}}}})
				if err != nil {
					return err
				}
				results, _ := resp["results"].([]interface{})
				e := ""
				if len(results) == 1 {
					e, _ = results[0].(map[string]interface{})["error"].(string)
				}
				if e == "" && info.HasVBD {
					ctx.Res.Violate("unknown-value-accepted:"+sig, "ValueByDiscriminator returns no error for an unmapped value", replay)
				}
			} else {
				for _, sfx := range suffixes {
					v, ok := samples[sfx]
					if !ok {
						continue
					}
					if o, isObj := jsonRoundTrip(v).(map[string]interface{}); isObj {
						if u.Fixed == "meta" {
							o["meta"] = "m"
						}
						if u.Fixed == "name" {
							if _, has := o["name"]; !has {
								o["name"] = nil
							}
						}
						if u.Addl {
							o["extra_key"] = "e"
						}
						v = o
					}
					resp, err := d.p.Call(J{"do": "json", "type": u.Name, "data": jsonOf(v)})
					if err != nil {
						return err
					}
					ctx.Res.Count("lossless")
					out, _ := resp["out"].(string)
					if !jsonEqual(out, jsonOf(v)) {
						ctx.Res.Violate("lossless:"+sig, fmt.Sprintf("%s decoded and encoded again is %v", jsonOf(v), Canon(resp)), replay)
					}
				}
			}
		}
		// nested: property, array, map, inline union in a property
		cat := J{c09DP: "x", "name": "n"}
		holder := J{"inline": cat}
		for i, key := range []string{"one", "many", "byName"} {
			u := d.unions[i]
			if len(u.Refs) == 0 {
				continue
			}
			tbl := u.Table()
			k0 := SortedKeys(tbl)[0]
			v, ok := ix.sample(&ast.Ident{Name: c09GoType[tbl[k0]]}, 1, 0)
			if !ok {
				continue
			}
			o := v.(map[string]interface{})
			if u.Disc != "" {
				o[c09DP] = k0
			}
			if u.Fixed == "name" {
				if _, has := o["name"]; !has {
					o["name"] = nil
				}
			}
			switch key {
			case "one":
				holder[key] = o
			case "many":
				holder[key] = []interface{}{o, o}
			case "byName":
				holder[key] = J{"a": o}
			}
		}
		resp, err := d.p.Call(J{"do": "json", "type": "Holder", "data": jsonOf(holder)})
		if err != nil {
			return err
		}
		ctx.Res.Count("nested")
		out, _ := resp["out"].(string)
		if !jsonEqual(out, jsonOf(holder)) {
			ctx.Res.Violate("nested-lossless", fmt.Sprintf("unions nested in a property, an array and a map: %s comes back as %v", jsonOf(holder), Canon(resp)), J{"doc": d.p.Doc})
		}
		// the inline union of House.pet and the one Shelter inherits: every mapped value dispatches to its member, under both
		for _, ty := range []string{"House_Pet", "Shelter_Pet"} {
			for val, member := range map[string]string{"cat": "Cat", "kitten": "Cat", "dog": "Dog"} {
				resp, err := d.p.Call(J{"do": "methods", "type": ty, "data": jsonOf(J{c09DP: val}), "steps": []J{{"m": "ValueByDiscriminator", "args": []json.RawMessage{}}}})
				if err != nil {
					return err
				}
				if e, _ := resp["err"].(string); e != "" {
					ctx.Res.Count("inherited-union:no-such-type:" + ty)
					break
				}
				ctx.Res.Count("inherited-union")
				ctx.Res.Eval(J{"inherited-union": ty, "value": val}, true)
				results, _ := resp["results"].([]interface{})
				dyn, e := "", ""
				if len(results) == 1 {
					rm, _ := results[0].(map[string]interface{})
					e, _ = rm["error"].(string)
					if vals, _ := rm["values"].([]interface{}); len(vals) > 0 {
						dyn, _ = vals[0].(map[string]interface{})["dyn"].(string)
					}
				}
				if dyn != "main."+member {
					ctx.Res.Violate("inherited-union:dispatch:"+ty, fmt.Sprintf("%s: discriminator value %q is mapped to %s; ValueByDiscriminator returns %q %s", ty, val, member, dyn, e), J{"doc": d.p.Doc})
				}
			}
		}
	}
	return nil
}

func init() { register("c09", runC09) }
