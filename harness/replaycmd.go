package main

import (
	"encoding/json"
	"fmt"
	"os"

	"github.com/oapi-codegen/oapi-codegen/v2/pkg/codegen"
)

// `harness regen -replay file.json`: re-run Generate on the doc+cfg of a replay (development aid).
func init() {
	register("regen", func(ctx *Ctx) error {
		b, err := os.ReadFile(ctx.Replay)
		if err != nil {
			return err
		}
		var rp struct {
			Replay struct {
				Doc J                     `json:"doc"`
				Cfg codegen.Configuration `json:"cfg"`
			} `json:"replay"`
			Doc J                     `json:"doc"`
			Cfg codegen.Configuration `json:"cfg"`
		}
		if err := json.Unmarshal(b, &rp); err != nil {
			return err
		}
		doc, cfg := rp.Replay.Doc, rp.Replay.Cfg
		if doc == nil {
			doc, cfg = rp.Doc, rp.Cfg
		}
		spec, err := loadDoc(doc)
		if err != nil {
			return err
		}
		if cfg.PackageName == "" {
			cfg.PackageName = "main"
		}
		out, err := generate(spec, cfg)
		if err != nil {
			e := err.Error()
			fmt.Println("ERROR:", e)
			return nil
		}
		fmt.Println(out)
		return nil
	})
}
