package main

import (
	"fmt"
	"os"
	"os/exec"
	"path/filepath"
	"strings"
	"time"

	"github.com/oapi-codegen/oapi-codegen/v2/pkg/codegen"
)

// Witness corpus of C01: minimal documents for defects found on the unchanged tree. Each runs on
// every check; a witness that still fails is matched against known-findings.txt by its signature,
// one that passes prints nothing.

type c01Witness struct {
	Name   string
	Doc    J
	FW     string
	Strict bool
	Client bool
	Mod    func(*codegen.Configuration)
	// MayRefuse: the document is one the generator may answer with an error (names that normalise alike); what it may
	// not do is return a file that does not compile
	MayRefuse bool
}

func wUnionOwnDisc(required, nullable bool) J {
	member := func() J {
		return J{"type": "object", "required": []interface{}{"kind"}, "properties": J{"kind": J{"type": "string"}, "name": J{"type": "string"}}}
	}
	pet := J{"type": "object", "properties": J{"kind": J{"type": "string", "nullable": nullable}},
		"oneOf":         []interface{}{J{"$ref": "#/components/schemas/Cat"}, J{"$ref": "#/components/schemas/Dog"}},
		"discriminator": J{"propertyName": "kind"}}
	if required {
		pet["required"] = []interface{}{"kind"}
	}
	return wDoc(J{}, J{"schemas": J{"Cat": member(), "Dog": member(), "Pet": pet}})
}

func wSharedTypeName(inline J) J {
	member := func() J {
		c := J{"x-go-type-name": "Labels"}
		for k, v := range inline {
			c[k] = v
		}
		return c
	}
	return wDoc(J{}, J{"schemas": J{
		"Order":   J{"type": "object", "properties": J{"id": J{"type": "string"}, "labels": member()}},
		"Invoice": J{"type": "object", "properties": J{"number": J{"type": "integer"}, "labels": member()}}}})
}

func wDoc(paths J, comps J) J {
	d := J{"openapi": "3.0.3", "info": J{"title": "w", "version": "1"}, "paths": paths}
	if comps != nil {
		d["components"] = comps
	}
	return d
}

func wOp(id string, extra J) J {
	op := J{"operationId": id, "responses": J{"204": J{"description": "d"}}}
	for k, v := range extra {
		op[k] = v
	}
	return op
}

func c01Witnesses() []c01Witness {
	objWith := func(p J) J { return J{"type": "object", "properties": p} }
	return []c01Witness{
		{Name: "text-response-nonfixed-status-strict", FW: "chi", Strict: true,
			Doc: wDoc(J{"/a": J{"get": wOp("getA", J{"responses": J{"default": J{"description": "d", "content": J{"text/plain": J{"schema": J{"type": "string"}}}}}})}}, nil)},
		{Name: "text-response-with-headers-strict", FW: "chi", Strict: true,
			Doc: wDoc(J{"/a": J{"get": wOp("getA", J{"responses": J{"200": J{"description": "d", "headers": J{"X-H": J{"schema": J{"type": "string"}}}, "content": J{"text/plain": J{"schema": J{"type": "string"}}}}}})}}, nil)},
		{Name: "enum-in-inline-response-client", FW: "", Client: true,
			Doc: wDoc(J{"/a": J{"get": wOp("getA", J{"responses": J{"200": J{"description": "d", "content": J{"application/json": J{"schema": objWith(J{"st": J{"type": "string", "enum": []interface{}{"a", "b"}}})}}}}})}}, nil)},
		{Name: "enum-in-inline-response-strict", FW: "chi", Strict: true,
			Doc: wDoc(J{"/a": J{"get": wOp("getA", J{"responses": J{"200": J{"description": "d", "content": J{"application/json": J{"schema": objWith(J{"st": J{"type": "string", "enum": []interface{}{"a", "b"}}})}}}}})}}, nil)},
		{Name: "addl-props-object-in-inline-response-client", FW: "", Client: true,
			Doc: wDoc(J{"/a": J{"get": wOp("getA", J{"responses": J{"200": J{"description": "d", "content": J{"application/json": J{"schema": objWith(J{"owner": J{"type": "object", "properties": J{"n": J{"type": "string"}}, "additionalProperties": J{"type": "integer"}}})}}}}})}}, nil)},
		{Name: "two-unsupported-request-media-types-strict", FW: "chi", Strict: true,
			Doc: wDoc(J{"/a": J{"post": wOp("postA", J{"requestBody": J{"content": J{"application/octet-stream": J{"schema": J{"type": "string", "format": "binary"}}, "application/xml": J{"schema": J{"type": "string"}}}}})}}, nil)},
		{Name: "two-multipart-request-media-types", FW: "chi",
			Doc: wDoc(J{"/a": J{"post": wOp("postA", J{"requestBody": J{"content": J{"multipart/form-data": J{"schema": objWith(J{"a": J{"type": "string"}})}, "multipart/related": J{"schema": J{"type": "string", "format": "binary"}}}}})}}, nil)},
		// an enum whose constants get the type name in front (a value is spelled like another type), one value of which
		// already begins with the enum's own name: the prefix is not dropped for it
		{Name: "prefixed-enum-value-beginning-with-the-type-name",
			Doc: wDoc(J{}, J{"schemas": J{"Error": J{"type": "string", "enum": []interface{}{"error_not_found", "other"}},
				"ErrorNotFound": J{"type": "object", "properties": J{"a": J{"type": "string"}}}}})},
		{Name: "same-name-parameters-in-two-locations-with-types-of-their-own", FW: "chi",
			Doc: wDoc(J{"/a/{mode}": J{"get": wOp("getA", J{"parameters": []interface{}{
				J{"name": "mode", "in": "path", "required": true, "schema": J{"type": "string", "enum": []interface{}{"a", "b"}}},
				J{"name": "mode", "in": "query", "schema": J{"type": "string", "enum": []interface{}{"x", "y"}}}}})}}, nil)},
		// one package imported under two names by x-go-type-import: both names are imported
		{Name: "one-import-path-under-two-names",
			Doc: wDoc(J{}, J{"schemas": J{
				"A": J{"type": "object", "properties": J{"id": J{"type": "string", "x-go-type": "googleuuid.UUID", "x-go-type-import": J{"path": "github.com/google/uuid", "name": "googleuuid"}}}},
				"B": J{"type": "string", "x-go-type": "guuid.UUID", "x-go-type-import": J{"path": "github.com/google/uuid", "name": "guuid"}}}})},
		{Name: "two-members-referring-to-a-renamed-schema",
			Doc: wDoc(J{}, J{"schemas": J{"Z": J{"type": "object", "x-go-name": "ZRenamed", "properties": J{"a": J{"type": "string"}}},
				"H": J{"type": "object", "properties": J{"first": J{"$ref": "#/components/schemas/Z"}, "second": J{"$ref": "#/components/schemas/Z"}}}}})},
		{Name: "nullable-additional-properties-value",
			Doc: wDoc(J{}, J{"schemas": J{"A": J{"type": "object", "properties": J{"n": J{"type": "string"}}, "additionalProperties": J{"type": "integer", "nullable": true}}}})},
		{Name: "schema-named-like-params-type", FW: "chi",
			Doc: wDoc(J{"/a": J{"get": wOp("foo", J{"parameters": []interface{}{J{"name": "q", "in": "query", "schema": J{"type": "string"}}}})}},
				J{"schemas": J{"FooParams": objWith(J{"x": J{"type": "string"}})}})},
		{Name: "operation-id-client", FW: "", Client: true,
			Doc: wDoc(J{"/a": J{"get": wOp("Client", nil)}}, nil)},
		{Name: "operation-id-server", FW: "", Client: true,
			Doc: wDoc(J{"/a": J{"get": wOp("Server", nil)}}, nil)},
		{Name: "security-scheme-name-with-superscript", FW: "chi",
			Doc: wDoc(J{"/a": J{"get": wOp("getA", J{"security": []interface{}{J{"a²": []interface{}{}}}})}},
				J{"securitySchemes": J{"a²": J{"type": "http", "scheme": "basic"}}})},
		{Name: "enum-value-with-quote",
			Doc: wDoc(J{}, J{"schemas": J{"E": J{"type": "string", "enum": []interface{}{"q\"x"}}}})},
		{Name: "self-referential-allOf",
			Doc: wDoc(J{}, J{"schemas": J{"A": J{"allOf": []interface{}{J{"$ref": "#/components/schemas/A"}, J{"type": "object"}}}}})},
		{Name: "property-extending-its-own-schema-inline",
			Doc: wDoc(J{}, J{"schemas": J{"N": objWith(J{"child": J{"allOf": []interface{}{J{"$ref": "#/components/schemas/N"}, objWith(J{"extra": J{"type": "string"}})}}})}})},
		{Name: "wildcard-json-response-fixed-status-strict", FW: "chi", Strict: true,
			Doc: wDoc(J{"/a": J{"get": wOp("getA", J{"responses": J{"200": J{"description": "d", "content": J{"application/*+json": J{"schema": objWith(J{"a": J{"type": "string"}})}}}}})}}, nil)},
		{Name: "fiber-security-scheme-needing-sanitising", FW: "fiber",
			Doc: wDoc(J{"/a": J{"get": wOp("getA", J{"security": []interface{}{J{"api-key": []interface{}{}}}})}},
				J{"securitySchemes": J{"api-key": J{"type": "apiKey", "in": "header", "name": "X-Key"}}})},
		{Name: "two-cookie-parameters", FW: "chi",
			Doc: wDoc(J{"/a": J{"get": wOp("getA", J{"parameters": []interface{}{J{"name": "a", "in": "cookie", "schema": J{"type": "string"}}, J{"name": "b", "in": "cookie", "schema": J{"type": "string"}}}})}}, nil)},
		{Name: "path-parameters-whose-variable-is-a-keyword", FW: "chi", Client: true,
			Doc: wDoc(J{"/a/{Type}/{range_}/{_func}": J{"get": wOp("getA", J{"parameters": []interface{}{
				J{"name": "Type", "in": "path", "required": true, "schema": J{"type": "string"}}, J{"name": "range_", "in": "path", "required": true, "schema": J{"type": "string"}},
				J{"name": "_func", "in": "path", "required": true, "schema": J{"type": "integer"}}}})}}, nil)},
		// a union that declares its own discriminator property: From/Merge assign the mapped value to a field that is a
		// plain string (required), a pointer (optional, or required and nullable) or nullable.Nullable (nullable-type)
		{Name: "union-own-discriminator-required-nullable", Doc: wUnionOwnDisc(true, true)},
		{Name: "union-own-discriminator-optional-nullable", Doc: wUnionOwnDisc(false, true)},
		{Name: "union-own-discriminator-required-nullable-type", Doc: wUnionOwnDisc(true, true),
			Mod: func(c *codegen.Configuration) { c.OutputOptions.NullableType = true }},
		{Name: "union-own-discriminator-optional-nullable-type", Doc: wUnionOwnDisc(false, true),
			Mod: func(c *codegen.Configuration) { c.OutputOptions.NullableType = true }},
		// one inline schema under one x-go-type-name in two places: declared once (GenerateTypes folds equal definitions),
		// so its methods must be generated once too — additional properties, a union, a union with additional properties
		{Name: "shared-type-name-additional-properties", Doc: wSharedTypeName(J{"type": "object", "properties": J{"owner": J{"type": "string"}}, "additionalProperties": J{"type": "string"}})},
		{Name: "shared-type-name-union", Doc: wSharedTypeName(J{"oneOf": []interface{}{J{"type": "string"}, J{"type": "integer"}}})},
		{Name: "shared-type-name-union-additional-properties", Doc: wSharedTypeName(J{"type": "object", "oneOf": []interface{}{J{"type": "object", "properties": J{"a": J{"type": "string"}}}, J{"type": "object", "properties": J{"b": J{"type": "integer"}}}}, "additionalProperties": J{"type": "string"}})},
		// a component parameter whose schema needs a type next to its own (enum items of an array, an inline object with
		// additional properties): that type is declared
		{Name: "component-parameter-array-of-enums", FW: "chi", Client: true,
			Doc: wDoc(J{"/a": J{"get": wOp("getA", J{"parameters": []interface{}{J{"$ref": "#/components/parameters/Levels"}, J{"$ref": "#/components/parameters/Filter"}}})}},
				J{"parameters": J{"Levels": J{"name": "levels", "in": "query", "schema": J{"type": "array", "items": J{"type": "string", "enum": []interface{}{"low", "high"}}}},
					"Filter": J{"name": "filter", "in": "query", "content": J{"application/json": J{"schema": J{"type": "object", "properties": J{"tags": J{"type": "array", "items": J{"type": "string", "enum": []interface{}{"a", "b"}}}}}}}}}})},
		// additional properties whose value schema needs types of its own one level further down (an array of inline
		// objects, an array of an inline enum): those types are declared
		{Name: "additional-properties-array-of-inline-objects",
			Doc: wDoc(J{}, J{"schemas": J{"Item": J{"type": "object", "properties": J{"id": J{"type": "string"}},
				"additionalProperties": J{"type": "array", "items": J{"type": "object", "properties": J{"a": J{"type": "string"}}, "additionalProperties": J{"type": "integer"}}}},
				"Tagged": J{"type": "object", "properties": J{"id": J{"type": "string"}},
					"additionalProperties": J{"type": "array", "items": J{"type": "string", "enum": []interface{}{"x", "y"}}}}}})},
		// operations whose identifiers coincide — two without operationId whose method and path give one default id
		// (GET /a/b and GET /a-b), two whose operationIds differ in spelling only: an error, or code that compiles
		{Name: "two-operations-one-default-id", FW: "chi", Client: true, MayRefuse: true,
			Doc: wDoc(J{"/a/b": J{"get": J{"responses": J{"204": J{"description": "d"}}}}, "/a-b": J{"get": J{"responses": J{"204": J{"description": "d"}}}}}, nil)},
		{Name: "two-operation-ids-normalising-alike", FW: "echo", Client: true, MayRefuse: true,
			Doc: wDoc(J{"/x": J{"get": wOp("get-pet", J{})}, "/y": J{"get": wOp("getPet", J{})}}, nil)},
		{Name: "leading-digit-schema-with-nested-map",
			Doc: wDoc(J{}, J{"schemas": J{"1st": objWith(J{"count": J{"type": "object", "properties": J{"n": J{"type": "string"}}, "additionalProperties": J{"type": "integer"}}})}})},
	}
}

// runWitnesses builds every witness in a child process for generation (a fatal stack overflow must
// not kill the check) and in the run kit for compilation.
func runWitnesses(ctx *Ctx) error {
	ws := c01Witnesses()
	kit, err := NewRunKit(filepath.Join(ctx.Work, "witness"))
	if err != nil {
		return err
	}
	defer kit.Close()
	self, _ := os.Executable()
	type wi struct {
		w c01Witness
		p *RunPkg
	}
	var items []wi
	for i, w := range ws {
		ctx.Res.Eval(J{"witness": w.Name}, true)
		ctx.Res.Count("witness")
		var cfg codegen.Configuration
		cfg.Generate.Models = true
		cfg.Generate.Client = w.Client
		if w.Mod != nil {
			w.Mod(&cfg)
		}
		if ps, _ := w.Doc["paths"].(J); len(ps) == 0 {
			cfg.OutputOptions.SkipPrune = true // a document without operations: keep its components
		}
		// 1. generation in a child process: crash / hang become observations
		rf := filepath.Join(ctx.Work, fmt.Sprintf("witness-%d.json", i))
		full := cfg
		full.PackageName = "main"
		setFramework(&full, w.FW)
		full.Generate.Strict = w.Strict
		b := []byte(Canon(J{"doc": w.Doc, "cfg": full}))
		_ = os.WriteFile(rf, b, 0o644)
		cmd := exec.Command(self, "regen", "-replay", rf)
		cmd.Env = append(os.Environ(), "GOMEMLIMIT=2GiB")
		done := make(chan error, 1)
		var out []byte
		go func() { var e error; out, e = cmd.CombinedOutput(); done <- e }()
		var cerr error
		select {
		case cerr = <-done:
		case <-time.After(60 * time.Second):
			_ = cmd.Process.Kill()
			cerr = fmt.Errorf("timeout")
		}
		replay := J{"witness": w.Name, "doc": w.Doc, "cfg": full}
		if cerr != nil {
			kind := "crash"
			if strings.Contains(string(out), "stack overflow") {
				kind = "fatal-stack-overflow"
			} else if cerr.Error() == "timeout" {
				kind = "does-not-terminate"
			}
			ctx.Res.Violate("witness:"+w.Name+":"+kind, fmt.Sprintf("Generate on witness %s: process died (%s)", w.Name, kind), replay)
			continue
		}
		if strings.HasPrefix(string(out), "ERROR:") {
			first := strings.SplitN(string(out), "\n", 2)[0]
			cls := "generate-error"
			if strings.Contains(first, "panic:") {
				cls = "generate-panic"
			}
			if strings.Contains(string(out), "error formatting Go code") {
				cls = "output-does-not-parse"
			}
			if w.MayRefuse && cls == "generate-error" {
				ctx.Res.Count("witness:refused")
				continue
			}
			ctx.Res.Violate("witness:"+w.Name+":"+cls, fmt.Sprintf("Generate on witness %s: %s", w.Name, first[:minInt(len(first), 200)]), replay)
			continue
		}
		p := kit.Add(&RunPkg{Name: fmt.Sprintf("w%d", i), FW: w.FW, Strict: w.Strict, Doc: w.Doc, Cfg: cfg})
		items = append(items, wi{w, p})
	}
	kit.Prepare()
	for _, it := range items {
		replay := J{"witness": it.w.Name, "doc": it.w.Doc}
		if it.p.GenErr != nil {
			ctx.Res.Violate("witness:"+it.w.Name+":generate-error", "Generate failed: "+it.p.GenErr.Error(), replay)
			continue
		}
		if it.p.BuildErr != "" {
			fails := it.p.CompileFailures()
			msg := firstLines(it.p.BuildErr, 3)
			cls := "compile"
			if len(fails) > 0 {
				cls = "compile:" + errorClass(fails[0].Msg)
				msg = fails[0].Func + ": " + fails[0].Msg
			}
			ctx.Res.Violate("witness:"+it.w.Name+":"+cls, "witness "+it.w.Name+" does not compile: "+msg, replay)
		}
	}
	return nil
}

func minInt(a, b int) int {
	if a < b {
		return a
	}
	return b
}
