package main

import (
	"encoding/json"
	"fmt"
	"os"
	"os/exec"
	"path/filepath"
	"sort"
	"strings"

	"github.com/getkin/kin-openapi/openapi3"
	"github.com/oapi-codegen/oapi-codegen/v2/pkg/codegen"
	"github.com/oapi-codegen/oapi-codegen/v2/pkg/util"
)

// C19, multi-document clause: GetSwagger() of the compiled package loads, validates and resolves every reference of a
// specification that uses other documents — documents named in the import mapping (resolved through the mapped
// package's PathToRawSpec) and plain files that are not.

// c19SummarySrc is compiled into the run program; c19Summarise below is the same text (kept identical by hand;
// a divergence shows as a difference on every document).
const c19SummarySrc = `
func schemaSummary(s *openapi3.SchemaRef, depth int) interface{} {
	if s == nil {
		return nil
	}
	if s.Value == nil {
		return "UNRESOLVED:" + s.Ref
	}
	m := map[string]interface{}{}
	if s.Value.Type != nil {
		m["type"] = fmt.Sprint(s.Value.Type.Slice())
	}
	req := append([]string{}, s.Value.Required...)
	sort.Strings(req)
	m["required"] = fmt.Sprint(req)
	if depth < 4 {
		props := map[string]interface{}{}
		for k, p := range s.Value.Properties {
			props[k] = schemaSummary(p, depth+1)
		}
		m["props"] = props
		if s.Value.Items != nil {
			m["items"] = schemaSummary(s.Value.Items, depth+1)
		}
		var all []interface{}
		for _, a := range s.Value.AllOf {
			all = append(all, schemaSummary(a, depth+1))
		}
		if all != nil {
			m["allOf"] = all
		}
	}
	return m
}

func specSummary(sw *openapi3.T) map[string]interface{} {
	out := map[string]interface{}{}
	if sw.Info != nil {
		out["info:description-bytes"] = len(sw.Info.Description)
	}
	if sw.Components != nil {
		for name, s := range sw.Components.Schemas {
			out["schema:"+name] = schemaSummary(s, 0)
		}
	}
	if sw.Paths != nil {
		for path, item := range sw.Paths.Map() {
			for method, op := range item.Operations() {
				key := method + " " + path
				for _, p := range append(append(openapi3.Parameters{}, item.Parameters...), op.Parameters...) {
					if p.Value == nil {
						out[key+" param"] = "UNRESOLVED:" + p.Ref
						continue
					}
					out[key+" param "+p.Value.In+":"+p.Value.Name] = schemaSummary(p.Value.Schema, 0)
				}
				if op.RequestBody != nil {
					if op.RequestBody.Value == nil {
						out[key+" body"] = "UNRESOLVED:" + op.RequestBody.Ref
					} else {
						for mt, c := range op.RequestBody.Value.Content {
							out[key+" body "+mt] = schemaSummary(c.Schema, 0)
						}
					}
				}
				if op.Responses != nil {
					for code, r := range op.Responses.Map() {
						if r.Value == nil {
							out[key+" "+code] = "UNRESOLVED:" + r.Ref
							continue
						}
						out[key+" "+code] = "present"
						for mt, c := range r.Value.Content {
							out[key+" "+code+" "+mt] = schemaSummary(c.Schema, 0)
						}
					}
				}
			}
		}
	}
	return out
}
`

func c19MultiDocs(variant string) (docs map[string]J, order []string) {
	common := J{"openapi": "3.0.3", "info": J{"title": "common", "version": "1"}, "paths": J{},
		"components": J{
			"schemas": J{"Pet": J{"type": "object", "required": []interface{}{"name"}, "properties": J{"name": J{"type": "string"}, "owner": J{"$ref": "#/components/schemas/Owner"}}},
				"Owner": J{"type": "object", "properties": J{"id": J{"type": "integer"}}}},
			"parameters": J{"Limit": J{"name": "limit", "in": "query", "schema": J{"type": "integer"}}},
			"responses":  J{"NotFound": J{"description": "nf", "content": J{"application/json": J{"schema": J{"$ref": "#/components/schemas/Owner"}}}}},
		}}
	extra := J{"type": "object", "required": []interface{}{"count"}, "properties": J{"count": J{"type": "integer"}, "note": J{"type": "string"}}}
	props := J{"local": J{"type": "string"}}
	op := J{"operationId": "postThing", "requestBody": J{"required": true, "content": J{"application/json": J{"schema": J{"$ref": "#/components/schemas/Container"}}}},
		"responses": J{"204": J{"description": "done"}}}
	docs = map[string]J{}
	if variant == "large" {
		// one document whose JSON is well over a megabyte (a long non-ASCII description): the compiled decoder must return all of it
		api := J{"openapi": "3.0.3", "info": J{"title": "api", "version": "1", "description": strings.Repeat("é日本 \"x\" \\ ", 150000)},
			"paths": J{"/things": J{"post": op}}, "components": J{"schemas": J{"Container": J{"type": "object", "properties": props}}}}
		return map[string]J{"api.json": api}, []string{"api.json"}
	}
	useCommon := variant == "mapped+plain" || variant == "mapped" || variant == "mapped-components"
	usePlain := variant == "mapped+plain" || variant == "plain"
	if useCommon {
		docs["common.json"] = common
		order = append(order, "common.json")
		props["pet"] = J{"$ref": "common.json#/components/schemas/Pet"}
		props["pets"] = J{"type": "array", "items": J{"$ref": "common.json#/components/schemas/Pet"}}
	}
	if variant == "mapped-components" {
		op["parameters"] = []interface{}{J{"$ref": "common.json#/components/parameters/Limit"}}
		op["responses"].(J)["404"] = J{"$ref": "common.json#/components/responses/NotFound"}
	}
	if usePlain {
		docs["extra.json"] = extra
		props["extra"] = J{"$ref": "./extra.json"}
	}
	api := J{"openapi": "3.0.3", "info": J{"title": "api", "version": "1"}, "paths": J{"/things": J{"post": op}},
		"components": J{"schemas": J{"Container": J{"type": "object", "properties": props}}}}
	docs["api.json"] = api
	order = append(order, "api.json")
	return docs, order
}

var c19MultiVariants = []string{"mapped+plain", "mapped", "mapped-components", "plain", "large"}

func c19MultiDocRun(ctx *Ctx) error {
	kit, err := NewRunKit(ctx.Work)
	if err != nil {
		return err
	}
	defer kit.Close()
	for vi, variant := range c19MultiVariants {
		for _, prune := range []bool{true, false} {
			docs, order := c19MultiDocs(variant)
			var common, api codegen.Configuration
			common.Generate.Models = true
			common.Generate.EmbeddedSpec = true
			common.OutputOptions.SkipPrune = true
			api.Generate.Models = true
			api.Generate.EmbeddedSpec = true
			api.Generate.Client = vi%2 == 0
			api.OutputOptions.SkipPrune = !prune
			name := fmt.Sprintf("c19md_%d_%v", vi, prune)
			md := &MultiDoc{Name: name, Docs: docs, Cfgs: map[string]codegen.Configuration{"common.json": common, "api.json": api}, Order: order}
			md.Build(kit.Root)
			desc := fmt.Sprintf("%s,prune=%v", variant, prune)
			ctx.Res.Eval(J{"multidoc": desc}, true)
			ctx.Res.Count("multidoc:" + variant)
			replay := J{"docs": docs, "variant": variant, "prune": prune, "import-mapping": order[:len(order)-1]}
			if len(md.GenErr) > 0 || md.BuildErr != "" {
				// C01's subject (generation / compilation of multi-document specifications)
				ctx.Res.Count("multidoc:not-built")
				ctx.Res.Violate("multidoc:not-built:"+variant, fmt.Sprintf("the packages of a multi-document specification are not generated or do not build: %v %s", md.GenErr, firstLines(md.BuildErr, 3)), replay)
				_ = os.RemoveAll(md.Dir)
				continue
			}
			// expected: the input, loaded with its external references resolved
			in, err := util.LoadSwagger(filepath.Join(md.Dir, "spec", "api.json"))
			if err != nil {
				return fmt.Errorf("c19 multidoc input does not load: %v", err)
			}
			want := c19Summarise(in)
			prog := "package main\n\nimport (\n\t\"context\"\n\t\"encoding/json\"\n\t\"fmt\"\n\t\"os\"\n\t\"sort\"\n\n\t\"github.com/getkin/kin-openapi/openapi3\"\n\tapi \"verifrun/" + name + "/api\"\n)\n" +
				c19SummarySrc + `
func main() {
	out := map[string]interface{}{}
	// an earlier caller that edits what it was given (the README does so with Servers): every call returns the
	// specification itself, not what another caller made of it
	if first, ferr := api.GetSwagger(); ferr == nil && first != nil {
		first.Servers = nil
		first.Paths = openapi3.NewPaths()
		if first.Info != nil {
			first.Info.Title = "edited by an earlier caller"
		}
		if first.Components != nil {
			first.Components.Schemas = openapi3.Schemas{}
		}
	}
	sw, err := api.GetSwagger()
	if err != nil {
		out["err"] = err.Error()
	} else {
		if verr := sw.Validate(context.Background()); verr != nil {
			out["invalid"] = verr.Error()
		}
		out["summary"] = specSummary(sw)
	}
	_ = sort.Strings
	_ = fmt.Sprint
	json.NewEncoder(os.Stdout).Encode(out)
}
`
			rd := filepath.Join(md.Dir, "run")
			_ = os.MkdirAll(rd, 0o755)
			_ = os.WriteFile(filepath.Join(rd, "main.go"), []byte(prog), 0o644)
			cmd := exec.Command("go", "run", "./"+name+"/run")
			cmd.Dir = kit.Root
			cmd.Env = append(os.Environ(), "GOFLAGS=-mod=mod", "GOPROXY=off", "GOSUMDB=off", "GOTOOLCHAIN=local")
			outb, rerr := cmd.Output()
			_ = os.RemoveAll(md.Dir)
			if rerr != nil {
				msg := rerr.Error()
				if ee, ok := rerr.(*exec.ExitError); ok {
					msg += ": " + firstLines(string(ee.Stderr), 6)
				}
				return fmt.Errorf("c19 multidoc run program failed: %s", msg)
			}
			var got struct {
				Err     string                 `json:"err"`
				Invalid string                 `json:"invalid"`
				Summary map[string]interface{} `json:"summary"`
			}
			if err := json.Unmarshal(outb, &got); err != nil {
				return fmt.Errorf("c19 multidoc run output: %v", err)
			}
			if got.Err != "" {
				ctx.Res.Violate("multidoc:getswagger-fails:"+variant, "GetSwagger() of the generated package fails ("+desc+"): "+got.Err, replay)
				continue
			}
			if got.Invalid != "" {
				ctx.Res.Violate("multidoc:embedded-invalid:"+variant, "the specification returned by GetSwagger() does not validate ("+desc+"): "+got.Invalid, replay)
			}
			var wantN map[string]interface{}
			wb, _ := json.Marshal(want)
			_ = json.Unmarshal(wb, &wantN)
			for _, k := range SortedKeys(wantN) {
				if Canon(got.Summary[k]) != Canon(wantN[k]) {
					ctx.Res.Violate("multidoc:embedded-differs:"+variant+":"+strings.SplitN(k, ":", 2)[0], fmt.Sprintf("%s (%s): GetSwagger() gives %s, the input document with its references resolved gives %s", k, desc, clip(Canon(got.Summary[k]), 300), clip(Canon(wantN[k]), 300)), replay)
					break
				}
			}
		}
	}
	return nil
}

// ---- the same summary, on the harness side (text identical to c19SummarySrc) ----

func c19Summarise(sw *openapi3.T) map[string]interface{} { return specSummary(sw) }

func schemaSummary(s *openapi3.SchemaRef, depth int) interface{} {
	if s == nil {
		return nil
	}
	if s.Value == nil {
		return "UNRESOLVED:" + s.Ref
	}
	m := map[string]interface{}{}
	if s.Value.Type != nil {
		m["type"] = fmt.Sprint(s.Value.Type.Slice())
	}
	req := append([]string{}, s.Value.Required...)
	sort.Strings(req)
	m["required"] = fmt.Sprint(req)
	if depth < 4 {
		props := map[string]interface{}{}
		for k, p := range s.Value.Properties {
			props[k] = schemaSummary(p, depth+1)
		}
		m["props"] = props
		if s.Value.Items != nil {
			m["items"] = schemaSummary(s.Value.Items, depth+1)
		}
		var all []interface{}
		for _, a := range s.Value.AllOf {
			all = append(all, schemaSummary(a, depth+1))
		}
		if all != nil {
			m["allOf"] = all
		}
	}
	return m
}

func specSummary(sw *openapi3.T) map[string]interface{} {
	out := map[string]interface{}{}
	if sw.Info != nil {
		out["info:description-bytes"] = len(sw.Info.Description)
	}
	if sw.Components != nil {
		for name, s := range sw.Components.Schemas {
			out["schema:"+name] = schemaSummary(s, 0)
		}
	}
	if sw.Paths != nil {
		for path, item := range sw.Paths.Map() {
			for method, op := range item.Operations() {
				key := method + " " + path
				for _, p := range append(append(openapi3.Parameters{}, item.Parameters...), op.Parameters...) {
					if p.Value == nil {
						out[key+" param"] = "UNRESOLVED:" + p.Ref
						continue
					}
					out[key+" param "+p.Value.In+":"+p.Value.Name] = schemaSummary(p.Value.Schema, 0)
				}
				if op.RequestBody != nil {
					if op.RequestBody.Value == nil {
						out[key+" body"] = "UNRESOLVED:" + op.RequestBody.Ref
					} else {
						for mt, c := range op.RequestBody.Value.Content {
							out[key+" body "+mt] = schemaSummary(c.Schema, 0)
						}
					}
				}
				if op.Responses != nil {
					for code, r := range op.Responses.Map() {
						if r.Value == nil {
							out[key+" "+code] = "UNRESOLVED:" + r.Ref
							continue
						}
						out[key+" "+code] = "present"
						for mt, c := range r.Value.Content {
							out[key+" "+code+" "+mt] = schemaSummary(c.Schema, 0)
						}
					}
				}
			}
		}
	}
	return out
}
