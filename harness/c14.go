package main

import (
	"encoding/json"
	"fmt"
	"os"
	"path/filepath"
	"strconv"
	"strings"

	"github.com/oapi-codegen/oapi-codegen/v2/pkg/codegen"
)

// C14 — every middleware wraps every operation, in the documented order.
// TAB-by-RUN: the trace of recording middlewares + stub is measured for every cell and
// written to Gen/C14.lean; the same cells are compared with the documented order here.

func c14Doc(security bool) J {
	ok := J{"200": J{"description": "d"}}
	paths := J{
		"/k0":      J{"get": J{"operationId": "Op0", "responses": ok}},
		"/k1/{id}": J{"get": J{"operationId": "Op1", "parameters": []interface{}{J{"name": "id", "in": "path", "required": true, "schema": J{"type": "integer"}}}, "responses": ok}},
		"/k2":      J{"get": J{"operationId": "Op2", "parameters": []interface{}{J{"name": "q", "in": "query", "required": true, "schema": J{"type": "string"}}}, "responses": ok}},
		"/k3": J{"post": J{"operationId": "Op3", "requestBody": J{"required": true, "content": J{"application/json": J{"schema": J{"type": "object", "properties": J{"a": J{"type": "integer"}}}}}},
			"responses": ok}},
		// a path shared by two methods, and a path that another one is a prefix of: a middleware mounted per route or per
		// prefix instead of per operation would run twice, or for the wrong operation
		"/k3/{sub}": J{"get": J{"operationId": "Op6", "parameters": []interface{}{J{"name": "sub", "in": "path", "required": true, "schema": J{"type": "string"}}}, "responses": ok}},
	}
	paths["/k0"].(J)["post"] = J{"operationId": "Op5", "responses": ok}
	// an operation of the OPTIONS method is an operation like any other
	paths["/k2"].(J)["options"] = J{"operationId": "Op7", "responses": ok}
	doc := J{"openapi": "3.0.3", "info": J{"title": "t", "version": "1"}, "paths": paths}
	if security {
		paths["/k4"] = J{"get": J{"operationId": "Op4", "security": []interface{}{J{"ApiKey": []interface{}{"r"}}}, "responses": ok}}
		doc["components"] = J{"securitySchemes": J{"ApiKey": J{"type": "apiKey", "in": "header", "name": "X-Key"}}}
	}
	return doc
}

var c14Reqs = []J{
	{"method": "GET", "url": "http://h/k0"},
	{"method": "GET", "url": "http://h/k1/5"},
	{"method": "GET", "url": "http://h/k2?q=x"},
	{"method": "POST", "url": "http://h/k3", "headers": [][2]string{{"Content-Type", "application/json"}}, "body": `{"a":1}`},
	{"method": "GET", "url": "http://h/k4"},
	{"method": "POST", "url": "http://h/k0"},
	{"method": "GET", "url": "http://h/k3/below"},
	{"method": "OPTIONS", "url": "http://h/k2"},
}

type c14Row struct {
	FW     int      `json:"fw"`
	Strict bool     `json:"strict"`
	Flag   bool     `json:"flag"`
	N      int      `json:"n"`
	Stop   int      `json:"stop"`
	SN     int      `json:"sn"`
	SStop  int      `json:"sstop"`
	Op     int      `json:"op"`
	Trace  []int    `json:"trace"`
	Raw    []string `json:"raw"`
	Status int      `json:"status"`
}

var c14FWs = []string{"chi", "gorilla", "stdhttp", "gin", "fiber", "iris", "echo"}

func c14Tok(s string, op int) int {
	switch {
	case strings.HasPrefix(s, "smw"):
		rest := strings.TrimPrefix(s, "smw")
		parts := strings.SplitN(rest, ":", 2)
		i, _ := strconv.Atoi(parts[0])
		if len(parts) != 2 || parts[1] != fmt.Sprintf("Op%d", op) {
			return 99999 // strict middleware did not receive this operation's id
		}
		return 100000 + 1000*op + i
	case strings.HasPrefix(s, "mw"):
		i, _ := strconv.Atoi(strings.TrimPrefix(s, "mw"))
		return i
	case strings.HasPrefix(s, "handler:Op"):
		i, _ := strconv.Atoi(strings.TrimPrefix(s, "handler:Op"))
		return 1000 + i
	}
	return 99998
}

// expected trace per the documentation (independent Go rendering of the statement)
func c14Expected(r c14Row) []int {
	var per []int
	for i := 0; i < r.N; i++ {
		per = append(per, i)
	}
	fw := c14FWs[r.FW]
	switch fw {
	case "chi", "gorilla", "stdhttp":
		if !r.Flag {
			for i, j := 0, len(per)-1; i < j; i, j = i+1, j-1 {
				per[i], per[j] = per[j], per[i]
			}
		}
	case "echo":
		per = nil
	}
	out := []int{}
	for _, m := range per {
		out = append(out, m)
		if m == r.Stop {
			return out
		}
	}
	if r.Strict {
		for i := r.SN - 1; i >= 0; i-- {
			out = append(out, 100000+1000*r.Op+i)
			if i == r.SStop {
				return out
			}
		}
	}
	return append(out, 1000+r.Op)
}

func c14Measure(ctx *Ctx) ([]c14Row, []string, error) {
	cache := filepath.Join(ctx.Work, "c14-table.json")
	if b, err := os.ReadFile(cache); err == nil {
		var c struct {
			Rows  []c14Row
			Notes []string
		}
		if json.Unmarshal(b, &c) == nil {
			return c.Rows, c.Notes, nil
		}
	}
	kit, err := NewRunKit(ctx.Work)
	if err != nil {
		return nil, nil, err
	}
	defer kit.Close()
	type pk struct {
		p      *RunPkg
		fw     int
		strict bool
		flag   bool
	}
	var pks []pk
	for fi, fw := range c14FWs {
		for _, strict := range []bool{false, true} {
			flags := []bool{false}
			if fw == "chi" || fw == "gorilla" || fw == "stdhttp" {
				flags = []bool{false, true}
			}
			for _, flag := range flags {
				var cfg codegen.Configuration
				cfg.Generate.Models = true
				if flag {
					if fw == "gorilla" {
						cfg.Compatibility.ApplyGorillaMiddlewareFirstToLast = true
					} else {
						cfg.Compatibility.ApplyChiMiddlewareFirstToLast = true
					}
				}
				name := fmt.Sprintf("c14_%s_%v_%v", fw, strict, flag)
				p := kit.Add(&RunPkg{Name: name, FW: fw, Strict: strict, Doc: c14Doc(true), Cfg: cfg})
				pks = append(pks, pk{p, fi, strict, flag})
			}
		}
	}
	kit.Prepare()
	var rows []c14Row
	var notes []string
	for _, k := range pks {
		if k.p.GenErr != nil {
			notes = append(notes, fmt.Sprintf("generr:%s:%v", k.p.Name, k.p.GenErr))
			continue
		}
		if k.p.BuildErr != "" {
			notes = append(notes, fmt.Sprintf("builderr:%s:%s", k.p.Name, firstLines(k.p.BuildErr, 3)))
			continue
		}
		fw := c14FWs[k.fw]
		maxN := 3
		if fw == "echo" {
			maxN = 0
		}
		for op := 0; op < len(c14Reqs); op++ {
			for n := 0; n <= maxN; n++ {
				for stop := -1; stop < n; stop++ {
					scombos := [][2]int{{0, -1}}
					if k.strict && (n == 0 || n == 2) {
						scombos = [][2]int{{0, -1}, {1, -1}, {1, 0}, {2, -1}, {2, 0}, {2, 1}}
					}
					for _, sc := range scombos {
						// strict servers are built through both constructors in turn (NewStrictHandler / NewStrictHandlerWithOptions)
						withOptions := k.strict && (op+n+sc[0])%2 == 1
						// every third cell is served under a base URL: the middlewares belong to the operations wherever they are mounted
						req, base := c14Reqs[op], ""
						if (op+n+stop+sc[0]+4)%3 == 0 {
							base = "/api"
							req = copyJ(req)
							req["url"] = strings.Replace(req["url"].(string), "http://h/", "http://h/api/", 1)
						}
						resp, err := k.p.Call(J{"do": "serve", "req": req, "opt": J{"mw": n, "stop": stop, "smw": sc[0], "sstop": sc[1], "sel": 0, "status": 200, "errh": withOptions, "base": base,
							// every other cell is observed on a server that has served the same request before: the order is per request, nothing carries over
							"warm": (op + n + sc[0]) % 2}})
						if err != nil {
							return nil, nil, err
						}
						row := c14Row{FW: k.fw, Strict: k.strict, Flag: k.flag, N: n, Stop: stop, SN: sc[0], SStop: sc[1], Op: op, Trace: []int{}}
						if resp["regpanic"] != nil || resp["panic"] != nil || resp["err"] != nil {
							notes = append(notes, fmt.Sprintf("servefail:%s:%v", k.p.Name, Canon(resp)))
							row.Trace = []int{99997}
						} else {
							tr, _ := resp["trace"].([]interface{})
							for _, t := range tr {
								s, _ := t.(string)
								row.Raw = append(row.Raw, s)
								row.Trace = append(row.Trace, c14Tok(s, op))
							}
							if st, ok := resp["status"].(float64); ok {
								row.Status = int(st)
							}
						}
						rows = append(rows, row)
					}
				}
			}
		}
	}
	b, _ := json.Marshal(struct {
		Rows  []c14Row
		Notes []string
	}{rows, notes})
	_ = os.WriteFile(cache, b, 0o644)
	return rows, notes, nil
}

func firstLines(s string, n int) string {
	ls := strings.Split(strings.TrimSpace(s), "\n")
	if len(ls) > n {
		ls = ls[:n]
	}
	return strings.Join(ls, " | ")
}

func natOrBig(i, n int) int {
	if i < 0 {
		return 99
	}
	return i
}

func genC14(ctx *Ctx) error {
	rows, _, err := c14Measure(ctx)
	if err != nil {
		return err
	}
	var b strings.Builder
	b.WriteString("import OapiVerif.Model.Chain\n-- GENERATED by `harness gen-c14` from /repo's working tree (TAB-by-RUN). Do not edit.\nnamespace OapiVerif.Gen.C14\nopen OapiVerif.Chain\n\n")
	const chunk = 150
	nchunks := 0
	for i := 0; i < len(rows); i += chunk {
		fmt.Fprintf(&b, "def table%d : List Row := [\n", nchunks)
		end := i + chunk
		if end > len(rows) {
			end = len(rows)
		}
		for j := i; j < end; j++ {
			r := rows[j]
			tr := []string{}
			for _, t := range r.Trace {
				tr = append(tr, strconv.Itoa(t))
			}
			sep := ","
			if j == end-1 {
				sep = ""
			}
			fmt.Fprintf(&b, "  ⟨%d, %v, %v, %d, %d, %d, %d, %d, [%s]⟩%s\n", r.FW, r.Strict, r.Flag, r.N, natOrBig(r.Stop, r.N), r.SN, natOrBig(r.SStop, r.SN), r.Op, strings.Join(tr, ", "), sep)
		}
		b.WriteString("]\n")
		nchunks++
	}
	b.WriteString("def table : List Row := ")
	parts := []string{}
	for i := 0; i < nchunks; i++ {
		parts = append(parts, fmt.Sprintf("table%d", i))
	}
	if len(parts) == 0 {
		parts = []string{"[]"}
	}
	b.WriteString(strings.Join(parts, " ++ ") + "\n")
	fmt.Fprintf(&b, "def cells : Nat := %d\n", len(rows))
	b.WriteString("end OapiVerif.Gen.C14\n")
	return os.WriteFile(filepath.Join(ctx.GenDir, "C14.lean"), []byte(b.String()), 0o644)
}

func runC14(ctx *Ctx) error {
	ctx.Res.Rule = "exhaustive table: framework(7) x strict(2) x first-to-last flag (chi/gorilla/std-http) x 0..3 per-operation middlewares x every short-circuit position x strict middleware count 0..2 x strict short-circuit position x 8 operation kinds (none, path, query, body, security, a second method of a path, a path below another operation's path, an OPTIONS operation), every third cell mounted under a base URL; one request per cell, trace of recording middlewares and stub; non-trivial = at least one middleware Session 9: every configuration passes through Validate and UpdateDefaults before Generate, as in the command-line tool."
	rows, notes, err := c14Measure(ctx)
	if err != nil {
		return err
	}
	for _, n := range notes {
		kind := strings.SplitN(n, ":", 3)
		ctx.Res.Violate("c14:"+kind[0]+":"+kind[1], "cannot measure middleware table: "+n, J{"note": n})
	}
	for _, r := range rows {
		ctx.Res.Eval(r, r.N+r.SN > 0)
		ctx.Res.Count(fmt.Sprintf("fw=%s strict=%v", c14FWs[r.FW], r.Strict))
		want := c14Expected(r)
		if Canon(r.Trace) != Canon(want) {
			sig := fmt.Sprintf("order:%s:strict=%v:flag=%v", c14FWs[r.FW], r.Strict, r.Flag)
			ctx.Res.Violate(sig, fmt.Sprintf("%s strict=%v flag=%v n=%d stop=%d smw=%d sstop=%d op=Op%d: trace %v, documented %v", c14FWs[r.FW], r.Strict, r.Flag, r.N, r.Stop, r.SN, r.SStop, r.Op, r.Raw, want),
				J{"row": r, "doc": c14Doc(true), "request": c14Reqs[r.Op]})
		}
	}
	ctx.Res.Exhaustive = true
	ctx.Res.Extra["cells"] = len(rows)
	return nil
}

func init() {
	register("c14", runC14)
	register("gen-c14", genC14)
}
