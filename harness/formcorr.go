package main

import (
	"fmt"
	"math"
	"net/url"
	"reflect"
	"sort"

	"github.com/oapi-codegen/runtime"
)

// CORR: runtime.MarshalForm / runtime.BindForm (pinned v1.1.0) vs Model/Form.lean on flat body structs built with
// reflect.StructOf the way the generator declares them: `form:"name" json:"name"` for required members, a pointer with
// `…,omitempty` for optional ones (the runtime reads the json tag, the frameworks' own binders the form tag); strings with separators and non-ASCII text, integers at the limits of their
// width, booleans. Both directions, and the wire leg in between (Values.Encode / url.ParseQuery).
func corrForm(ctx *Ctx, n int) error {
	names := []string{"a", "n", "f", "user_name", "remember-me", "x.y", "Z"}
	texts := []string{"", "x y", "a&b=c", "ü日本", "50%+x", "plain", "0", "true"}
	hexs := func(s string) string { return fmt.Sprintf("%x", []byte(s)) }
	for i := 0; i < n; i++ {
		r := ctx.Rng.Fork()
		k := 1 + r.Intn(5)
		var sf []reflect.StructField
		var fields []interface{}
		var values []interface{}
		var kinds []string
		var opts []bool
		for idx, j := range r.Perm(len(names))[:k] {
			kind := r.Pick([]string{"str", "str", "bool", "int8", "int16", "int32", "int64"})
			optional := r.Chance(45)
			var t reflect.Type
			switch kind {
			case "str":
				t = reflect.TypeOf("")
			case "bool":
				t = reflect.TypeOf(false)
			case "int8":
				t = reflect.TypeOf(int8(0))
			case "int16":
				t = reflect.TypeOf(int16(0))
			case "int32":
				t = reflect.TypeOf(int32(0))
			default:
				t = reflect.TypeOf(int64(0))
			}
			tag := names[j]
			if optional {
				t = reflect.PointerTo(t)
				tag += ",omitempty"
			}
			sf = append(sf, reflect.StructField{Name: fmt.Sprintf("F%d", idx), Type: t, Tag: reflect.StructTag(`form:"` + tag + `" json:"` + tag + `"`)})
			fields = append(fields, J{"name": hexs(names[j]), "ty": kind, "optional": optional})
			kinds = append(kinds, kind)
			opts = append(opts, optional)
		}
		st := reflect.New(reflect.StructOf(sf)).Elem()
		for idx := range sf {
			if opts[idx] && r.Chance(40) {
				values = append(values, nil)
				continue
			}
			var gv reflect.Value
			var mv interface{}
			switch kinds[idx] {
			case "str":
				s := r.Pick(texts)
				gv, mv = reflect.ValueOf(s), J{"s": hexs(s)}
			case "bool":
				b := r.Bool()
				gv, mv = reflect.ValueOf(b), J{"b": b}
			default:
				bits := map[string]uint{"int8": 8, "int16": 16, "int32": 32, "int64": 64}[kinds[idx]]
				lo, hi := -int64(1)<<(bits-1), int64(1)<<(bits-1)-1
				if bits == 64 {
					lo, hi = math.MinInt64, math.MaxInt64
				}
				v := []int64{0, 1, -1, 42, lo, hi}[r.Intn(6)]
				base := sf[idx].Type
				if opts[idx] {
					base = base.Elem()
				}
				gv, mv = reflect.ValueOf(v).Convert(base), J{"i": fmt.Sprint(v)}
			}
			if opts[idx] {
				p := reflect.New(gv.Type())
				p.Elem().Set(gv)
				gv = p
			}
			st.Field(idx).Set(gv)
			values = append(values, mv)
		}
		var mm struct {
			Pairs     [][]string `json:"pairs"`
			WellTyped bool       `json:"welltyped"`
		}
		if err := ctx.Model(J{"fn": "form", "op": "marshal", "fields": fields, "values": values}, &mm); err != nil {
			return err
		}
		ctx.Res.Eval(J{"form": fields, "values": values}, true)
		ctx.Res.Count("corr:form")
		got, err := runtime.MarshalForm(st.Addr().Interface(), nil)
		cs := J{"fields": fields, "values": values}
		if err != nil {
			ctx.Res.Disagree("CORR runtime.MarshalForm vs Form.marshal (error)", cs, "pairs", err.Error())
			continue
		}
		var gp, mp []string
		for k, vs := range got {
			for _, v := range vs {
				gp = append(gp, k+"="+v)
			}
		}
		for _, p := range mm.Pairs {
			mp = append(mp, unhx(p[0])+"="+unhx(p[1]))
		}
		sort.Strings(gp)
		sort.Strings(mp)
		if fmt.Sprint(gp) != fmt.Sprint(mp) {
			ctx.Res.Disagree("CORR runtime.MarshalForm vs Form.marshal", cs, fmt.Sprint(mp), fmt.Sprint(gp))
			continue
		}
		// the wire and back: Encode, ParseQuery, BindForm into a zero struct
		parsed, perr := url.ParseQuery(got.Encode())
		back := reflect.New(st.Type())
		berr := runtime.BindForm(back.Interface(), parsed, nil, nil)
		same := perr == nil && berr == nil && reflect.DeepEqual(back.Elem().Interface(), st.Interface())
		var mb struct {
			Values []interface{} `json:"values"`
			Error  string        `json:"error"`
		}
		var pairs [][]string
		for _, p := range mm.Pairs {
			pairs = append(pairs, p)
		}
		if pairs == nil {
			pairs = [][]string{}
		}
		if err := ctx.Model(J{"fn": "form", "op": "bind", "fields": fields, "pairs": pairs}, &mb); err != nil {
			return err
		}
		modelSame := mb.Error == "" && Canon(jsonRoundTrip(mb.Values)) == Canon(jsonRoundTrip(values))
		if !mm.WellTyped {
			ctx.Res.Disagree("CORR form: the harness built a body the model does not call well-typed", cs, "well-typed", "not")
		}
		if !modelSame {
			ctx.Res.Disagree("CORR Form.bind (Form.marshal v) ≠ v on a well-typed value (contradicts bind_marshal)", cs, Canon(values), Canon(mb))
		}
		if !same {
			ctx.Res.Violate("form-body:roundtrip-lost", fmt.Sprintf("a flat body struct sent as a form (%s) is not read back as itself by runtime.BindForm: %v %v", got.Encode(), perr, berr), cs)
		}
	}
	// unparsable texts are refused by both
	for _, c := range []struct{ ty, text string }{{"int8", "128"}, {"int8", "-129"}, {"int32", "2147483648"}, {"int16", "x"}, {"bool", "maybe"}, {"int64", ""}, {"bool", "TRUE"}, {"int8", "+5"}} {
		var t reflect.Type
		switch c.ty {
		case "bool":
			t = reflect.TypeOf(false)
		case "int8":
			t = reflect.TypeOf(int8(0))
		case "int16":
			t = reflect.TypeOf(int16(0))
		case "int32":
			t = reflect.TypeOf(int32(0))
		default:
			t = reflect.TypeOf(int64(0))
		}
		st := reflect.New(reflect.StructOf([]reflect.StructField{{Name: "F0", Type: t, Tag: `form:"v" json:"v"`}}))
		berr := runtime.BindForm(st.Interface(), map[string][]string{"v": {c.text}}, nil, nil)
		var mb struct {
			Values []interface{} `json:"values"`
			Error  string        `json:"error"`
		}
		if err := ctx.Model(J{"fn": "form", "op": "bind", "fields": []interface{}{J{"name": hexs("v"), "ty": c.ty, "optional": false}}, "pairs": [][]string{{hexs("v"), hexs(c.text)}}}, &mb); err != nil {
			return err
		}
		ctx.Res.Evaluations++
		if (berr != nil) != (mb.Error != "") {
			ctx.Res.Disagree("CORR runtime.BindForm vs Form.bind (accepts or not)", J{"ty": c.ty, "text": c.text}, mb.Error, fmt.Sprint(berr))
		}
	}
	return nil
}
